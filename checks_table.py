"""Table from which gen_manifest.py writes MANIFEST.json."""
HOOK_COMMITS = []
NOTES = ("Technique family: deterministic simulation with fault injection. 8 properties are decided by simulation, "
         "12 are pure functions of their input and are listed under not_applicable (DESIGN.md §2).")
ENGINES = []
CHECKS = {}
PENDING = {k: "check under construction (planned engine, see DESIGN.md §5); not claimed until it runs" for k in
           ["C03", "C04", "C05", "C06", "C10", "C14", "C15", "C18"]}
