"""Table from which gen_manifest.py writes MANIFEST.json."""
HOOK_COMMITS = []
NOTES = ("Technique family: deterministic simulation with fault injection. 8 properties are decided by simulation "
         "(seeded operation-and-fault histories against reference models; seeded thread schedules and asynchronous faults for the "
         "module-level memo tables), 12 are pure functions of their input and are listed under not_applicable (DESIGN.md section 2). "
         "Genuine defects found and repaired are listed in known_findings.json ('fixed'); unrepaired ones under 'findings'.")
ENGINES = [
    {"name": "kv", "path": "sim/eng_kv.py", "serves_properties": ["C03", "C18"],
     "kind_free_text": "pool of KnotVector objects; seeded open-loop plans with relative selectors; scripted RNG; SimScalar / failing-iterable faults; exact knot-vector model"},
    {"name": "memo", "path": "sim/eng_memo.py", "serves_properties": ["C10"],
     "kind_free_text": "module-level quadrature memo tables under 1-3 simulated caller threads (baton passing, sys.settrace line-level seeded scheduler) with asynchronous faults; cold-answer and exact-moment oracles"},
    {"name": "ref", "path": "sim/eng_ref.py", "serves_properties": ["C04", "C05", "C06", "C14"],
     "kind_free_text": "Curve objects refined step by step against an exact B-spline model (Cox-de Boor, piecewise-polynomial form, minimal representation); invalid-request faults; undo steps"},
    {"name": "curve", "path": "sim/eng_curve.py", "serves_properties": ["C15"],
     "kind_free_text": "world of 1-4 Curve objects with seeded aliasing layouts and simulated point types (value-seam faults); consistency / atomicity / non-interference oracles"},
]
_NOTE = ("Sampling, not proof. A violation is replayed in a fresh interpreter before it is reported; when it needs process-global history the replay file carries the earlier plans of the worker process as a session.  Trusted base: the exact reference model /verif/sim/model.py (own self-test), the plan executor, "
         "CPython + numpy. All of compmec.nurbs runs as shipped from /repo/src; only the environment side of the seams is stubbed.")
CHECKS = {
    "C03": {"engine": "kv", "technique": "deterministic simulation: seeded operation-and-fault histories on KnotVector objects vs exact reference model, with shrinking and replay",
            "ref": "DESIGN.md section 5 (C03), section 3",
            "text": "Seeded search over finite histories of public KnotVector operations (valid and invalid requests, value-seam and iterable faults, copies and aliases); after every step every vector in the world is checked for well-formedness and query agreement against an exact element-list model, every refusal for the stated exception type and for atomicity, every other object for non-interference. Exploration-level: strong evidence on the sampled histories, no exhaustiveness.",
            "note": _NOTE},
    "C18": {"engine": "kv", "technique": "deterministic simulation: scripted/seeded RNG seam for random(), shift/scale/normalize as checked state transitions",
            "ref": "DESIGN.md section 5 (C18)",
            "text": "The only randomness source of the package (numpy.random.randint inside GeneratorKnotVector.random) is put behind a scripted seam that feeds adversarial and uniform draw vectors; generator postconditions and the affine maps are judged as transitions inside seeded histories (exact image of every knot, multiplicities kept, normalize onto exactly [0,1], refusal atomicity).",
            "note": _NOTE},
}
CHECKS["C10"] = {"engine": "memo", "technique": "deterministic simulation: seeded line-level thread scheduler (baton passing + sys.settrace) and asynchronous fault injection over the module-level memo tables; cold-answer and exact-moment oracles",
                 "ref": "DESIGN.md section 5 (C10), section 3.3",
                 "text": "The six module-level memo tables are the only state the library shares between callers. Each run restores them to import-time content, drives 1-3 simulated caller threads through seeded request lists (all rule families, colliding and neighbouring sizes, Integrate.*, table-consuming removals, invalid sizes, failing integrands) under a seeded scheduler that may switch threads at every Python line of heavy.py/calculus.py, injects at most one asynchronous exception at the k-th line of a request, and judges every answered request plus a final sweep for exactness to the rule's order, equality with the answer in a pristine state, and closed forms of spline integrals.",
                 "note": _NOTE}
_REF_TECH = 'deterministic simulation: seeded operation-and-fault histories on Curve objects, step-by-step refinement check against an exact B-spline reference model, shrinking and replay'
CHECKS["C04"] = {"engine": "ref", "technique": _REF_TECH, "ref": "DESIGN.md section 5 (C04), section 4",
                 "text": "knot_insert is judged as a state transition of a persistent curve inside seeded histories that also elevate, remove, reduce and clean (so insertion meets states no constructor call produces): valid requests must succeed, the knot vector must be the sorted multiset union, the curve must be the same function (exact piecewise-polynomial / cross-multiplied rational comparison against an independent Cox-de Boor model), invalid requests must be refused with ValueError and every refusal - including one caused by a failing user point type - must leave the curve unchanged.",
                 "note": _NOTE}
CHECKS["C05"] = {"engine": "ref", "technique": _REF_TECH, "ref": "DESIGN.md section 5 (C05), section 4",
                 "text": "knot_remove steps are classified by the model (continuity analysis of the exact piecewise-polynomial form, or undo of an earlier insertion of the same history) and judged accordingly: exactly removable must succeed with zero deviation for every tolerance and an undo must restore the earlier state identically; otherwise refusal with ValueError (unchanged) or success within the exact deviation bound; tolerance=None must succeed and interpolate at the remaining knots.",
                 "note": _NOTE + " Rational removal is a listed known finding (known_findings.json F-C05-rational-removal); polynomial curves are fully judged."}
CHECKS["C06"] = {"engine": "ref", "technique": _REF_TECH, "ref": "DESIGN.md section 5 (C06), section 4",
                 "text": "degree_increase / degree setter / degree_decrease steps inside seeded histories: elevation must be exact with every multiplicity raised by t; reduction is classified by the model (representable on the target vector, or undo of an earlier elevation) and must then be exact and restore the earlier state, else be refused with ValueError (unchanged) or stay within the deviation bound; invalid t refused.",
                 "note": _NOTE + " Rational reduction is a listed known finding (F-C06-rational-reduction)."}
CHECKS["C14"] = {"engine": "ref", "technique": _REF_TECH, "ref": "DESIGN.md section 5 (C14), section 4",
                 "text": "clean is treated as the library's compaction pass: after seeded sequences of content-preserving refinements and refused requests, knot_clean / degree_clean / clean (in seeded order and repetition, tolerances 0 / default / 1e-12) must preserve the function, reach the model's unique minimal representation (degree and every multiplicity), be idempotent, and bring two differently refined twins of one function to identical knots and control points.",
                 "note": _NOTE + " Rational cleaning is a listed known finding (F-C14-rational-clean); minimality is judged on polynomial curves in exact arithmetic."}
CHECKS["C15"] = {"engine": "curve", "technique": "deterministic simulation: seeded operation-and-fault histories over a world of aliased Curve objects with simulated point types (value-seam fault injection); consistency / failure-atomicity / non-interference invariants after every step",
                 "ref": "DESIGN.md section 5 (C15), section 3.3",
                 "text": "The core simulation target of this code base: histories of all public Curve operations over 1-6 curves created under seeded aliasing layouts (same KnotVector object, same point objects, copies), with invalid arguments from the statement's list and deterministic environment faults raised by simulated control-point types and user callables in the middle of operations. After every step: every curve is consistent and evaluable (I1), a raising operation left its receiver bit-identical (I2), non-mutating operations left their operands untouched (I3), every other curve of the world - aliases and originals of copies included - is unchanged (I4), and the caller's own containers and point objects are unchanged (I5).",
                 "note": _NOTE}
PENDING = {}
