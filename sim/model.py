"""Exact reference model (trusted base of the oracles).

Written from the textbook definitions, in fractions.Fraction, sharing no code with
compmec.nurbs.  Nothing in this file imports the library under test.

Contents
  * numbers:      Fr (exact conversion), enc/dec (JSON encoding of exact values)
  * knot vectors: wellformed, kv_degree, kv_span, kv_mult, kv_knots, kv_limits
  * B-splines:    basis_row (Cox-de Boor, right-continuous, left limit at umax),
                  curve_eval, pieces (piecewise polynomial form), poly helpers
  * analysis:     continuity, minimal_form, removable, reducible, l2_deviation,
                  same_function
  * quadrature:   moment_defect
"""
from fractions import Fraction
from math import isfinite

INF = 10 ** 9  # "infinite" continuity order (both sides are the same polynomial)


# --------------------------------------------------------------------------
# numbers
# --------------------------------------------------------------------------
def Fr(x):
    """Exact rational value of an int / Fraction / float / numpy scalar."""
    if isinstance(x, Fraction):
        return x
    if isinstance(x, bool):
        raise TypeError("bool is not a model number")
    if isinstance(x, int):
        return Fraction(x)
    if isinstance(x, float):
        if not isfinite(x):
            raise ValueError("non-finite float")
        return Fraction(x)
    # numpy scalars and similar
    try:
        import numpy as np
        if isinstance(x, np.integer):
            return Fraction(int(x))
        if isinstance(x, np.floating):
            return Fraction(float(x))
    except ImportError:  # pragma: no cover
        pass
    if hasattr(x, "numerator") and hasattr(x, "denominator"):
        return Fraction(int(x.numerator), int(x.denominator))
    raise TypeError("not a model number: %r" % (type(x),))


def enc(x):
    """JSON-able text of an exact value."""
    if isinstance(x, Fraction):
        return "%d/%d" % (x.numerator, x.denominator) if x.denominator != 1 else "%d" % x.numerator
    if isinstance(x, bool):
        return repr(x)
    if isinstance(x, int):
        return "%d" % x
    if isinstance(x, float):
        return "f:" + x.hex()
    return repr(x)


def dec(s):
    """Inverse of enc for ints / fractions / floats; returns a Fraction or a float."""
    if s.startswith("f:"):
        return float.fromhex(s[2:])
    if "/" in s:
        a, b = s.split("/")
        return Fraction(int(a), int(b))
    return Fraction(int(s))


# --------------------------------------------------------------------------
# knot vectors (element list semantics, straight from the statement of C03)
# --------------------------------------------------------------------------
def wellformed(L):
    """Degree p of the clamped knot vector L (a sequence of exact numbers), or None.

    Well formed: non-decreasing, first and last value each repeated exactly p+1 times,
    every interior multiplicity <= p+1, len = p + npts + 1 with npts > p.
    """
    L = list(L)
    n = len(L)
    if n < 2:
        return None
    for a, b in zip(L, L[1:]):
        if not a <= b:
            return None
    first, last = L[0], L[-1]
    if first == last:
        return None
    p = sum(1 for x in L if x == first) - 1
    if sum(1 for x in L if x == last) != p + 1:
        return None
    i = p + 1
    while i < n - p - 1:
        j = i
        while j < n and L[j] == L[i]:
            j += 1
        if j - i > p + 1:
            return None
        i = j
    npts = n - p - 1
    if not npts > p:
        return None
    return p


def kv_degree(L):
    p = wellformed(L)
    if p is None:
        raise ValueError("ill-formed")
    return p


def kv_knots(L):
    out = []
    for x in L:
        if not out or out[-1] != x:
            out.append(x)
    return out


def kv_limits(L):
    return (L[0], L[-1])


def kv_mult(L, u):
    return sum(1 for x in L if x == u)


def kv_span(L, u):
    """k with L[k] <= u < L[k+1]; npts-1 at umax.  u must be inside [umin, umax]."""
    p = kv_degree(L)
    npts = len(L) - p - 1
    if u == L[-1]:
        return npts - 1
    if not (L[0] <= u < L[-1]):
        raise ValueError("outside")
    k = p
    while not (L[k] <= u < L[k + 1]):
        k += 1
    return k


def kv_mults(L):
    """[(knot, multiplicity)] in order."""
    out = []
    for x in L:
        if out and out[-1][0] == x:
            out[-1][1] += 1
        else:
            out.append([x, 1])
    return [(a, b) for a, b in out]


# --------------------------------------------------------------------------
# Cox-de Boor
# --------------------------------------------------------------------------
def basis_row(L, p, u, j=None):
    """All N_{i,j}(u), i = 0..len(L)-j-2 (Fractions), by the Cox-de Boor recursion.

    Right-continuous at interior knots; at u = umax the left limit (last span) is used.
    j defaults to p.  L must be well formed of degree p.
    """
    if j is None:
        j = p
    n = len(L)
    k = kv_span(L, u)  # L[k] <= u < L[k+1] (or last non-empty span at umax)
    # degree-0 functions on the knot intervals
    N = [Fraction(0)] * (n - 1)
    N[k] = Fraction(1)
    for d in range(1, j + 1):
        M = [Fraction(0)] * (n - 1 - d)
        for i in range(n - 1 - d):
            val = Fraction(0)
            den = L[i + d] - L[i]
            if den != 0 and N[i] != 0:
                val += (u - L[i]) / den * N[i]
            den = L[i + d + 1] - L[i + 1]
            if den != 0 and N[i + 1] != 0:
                val += (L[i + d + 1] - u) / den * N[i + 1]
            M[i] = val
        N = M
    return N


def _pt_scale(c, P):
    if isinstance(P, tuple):
        return tuple(c * x for x in P)
    return c * P


def _pt_add(A, B):
    if isinstance(A, tuple):
        return tuple(a + b for a, b in zip(A, B))
    return A + B


def _pt_zero(P):
    if isinstance(P, tuple):
        return tuple(Fraction(0) for _ in P)
    return Fraction(0)


def curve_eval(state, u):
    """Value of the model curve state = (L, P, W) at exact parameter u.

    L: list of Fractions; P: list of Fractions or of equal-length tuples; W: list or None.
    """
    L, P, W = state
    p = kv_degree(L)
    N = basis_row(L, p, u)
    if W is not None:
        den = sum(n * w for n, w in zip(N, W))
        acc = _pt_zero(P[0])
        for n, w, pt in zip(N, W, P):
            if n != 0:
                acc = _pt_add(acc, _pt_scale(n * w / den, pt))
        return acc
    acc = _pt_zero(P[0])
    for n, pt in zip(N, P):
        if n != 0:
            acc = _pt_add(acc, _pt_scale(n, pt))
    return acc


# --------------------------------------------------------------------------
# polynomials as coefficient lists (lowest degree first), exact
# --------------------------------------------------------------------------
def p_trim(a):
    a = list(a)
    while a and a[-1] == 0:
        a.pop()
    return a


def p_add(a, b):
    n = max(len(a), len(b))
    return p_trim([(a[i] if i < len(a) else 0) + (b[i] if i < len(b) else 0) for i in range(n)])


def p_sub(a, b):
    return p_add(a, [-x for x in b])


def p_scale(c, a):
    return p_trim([c * x for x in a])


def p_mul(a, b):
    if not a or not b:
        return []
    out = [Fraction(0)] * (len(a) + len(b) - 1)
    for i, x in enumerate(a):
        if x == 0:
            continue
        for j, y in enumerate(b):
            out[i + j] += x * y
    return p_trim(out)


def p_eval(a, u):
    s = Fraction(0)
    for c in reversed(a):
        s = s * u + c
    return s


def p_der(a):
    return p_trim([i * a[i] for i in range(1, len(a))])


def p_int(a, lo, hi):
    s = Fraction(0)
    for i, c in enumerate(a):
        s += c * (hi ** (i + 1) - lo ** (i + 1)) / (i + 1)
    return s


def basis_polys(L, p, k):
    """{i: polynomial of N_{i,p} restricted to the span [L[k], L[k+1])} by symbolic Cox-de Boor."""
    n = len(L)
    N = {k: [Fraction(1)]}
    for d in range(1, p + 1):
        M = {}
        for i in range(max(0, k - d), min(k, n - 2 - d) + 1):
            acc = []
            den = L[i + d] - L[i]
            if den != 0 and i in N:
                acc = p_add(acc, p_mul([-L[i] / den, Fraction(1) / den], N[i]))
            den = L[i + d + 1] - L[i + 1]
            if den != 0 and (i + 1) in N:
                acc = p_add(acc, p_mul([L[i + d + 1] / den, Fraction(-1) / den], N[i + 1]))
            M[i] = acc
        N = M
    return N


def pieces(state):
    """Piecewise polynomial form.

    Returns (breaks, comps) with breaks = distinct knots and, for each span s,
    comps[s] = {'num': [poly per coordinate], 'den': poly or None}.
    A scalar curve has one coordinate.
    """
    L, P, W = state
    p = kv_degree(L)
    breaks = kv_knots(L)
    dim = len(P[0]) if isinstance(P[0], tuple) else 1
    out = []
    for s in range(len(breaks) - 1):
        k = kv_span(L, breaks[s])
        B = basis_polys(L, p, k)
        num = [[] for _ in range(dim)]
        den = [] if W is not None else None
        for i, poly in B.items():
            w = W[i] if W is not None else 1
            pt = P[i] if isinstance(P[i], tuple) else (P[i],)
            for c in range(dim):
                if pt[c] != 0:
                    num[c] = p_add(num[c], p_scale(w * pt[c], poly))
            if W is not None:
                den = p_add(den, p_scale(w, poly))
        out.append({"num": num, "den": den})
    return breaks, out


def _piece_equal(a, b):
    """Two pieces denote the same (vector) function."""
    if a["den"] is None and b["den"] is None:
        return all(p_sub(x, y) == [] for x, y in zip(a["num"], b["num"]))
    da = a["den"] if a["den"] is not None else [Fraction(1)]
    db = b["den"] if b["den"] is not None else [Fraction(1)]
    return all(p_sub(p_mul(x, db), p_mul(y, da)) == [] for x, y in zip(a["num"], b["num"]))


def same_function(s1, s2):
    """Exact equality of two model curves as functions on a common interval."""
    if kv_limits(s1[0]) != kv_limits(s2[0]):
        return False
    d1 = len(s1[1][0]) if isinstance(s1[1][0], tuple) else 1
    d2 = len(s2[1][0]) if isinstance(s2[1][0], tuple) else 1
    if d1 != d2:
        return False
    b1, c1 = pieces(s1)
    b2, c2 = pieces(s2)
    allb = sorted(set(b1) | set(b2))
    for lo, hi in zip(allb, allb[1:]):
        i1 = max(i for i in range(len(b1) - 1) if b1[i] <= lo)
        i2 = max(i for i in range(len(b2) - 1) if b2[i] <= lo)
        if not _piece_equal(c1[i1], c2[i2]):
            return False
    return True


def sample_params(L, extra=0):
    """Exact parameters covering every knot, both ends and `extra`+1 interior points of each span."""
    ks = kv_knots(L)
    out = list(ks)
    for a, b in zip(ks, ks[1:]):
        for t in range(1, extra + 2):
            out.append(a + (b - a) * Fraction(t, extra + 2))
    return sorted(set(out))


def max_pointwise_diff(s1, s2, extra=2):
    """max |s1(u) - s2(u)| over sample parameters of the union of knots (for float-mode comparisons)."""
    allk = sorted(set(s1[0]) | set(s2[0]))
    worst = Fraction(0)
    for u in sample_params(allk, extra):
        a = curve_eval(s1, u)
        b = curve_eval(s2, u)
        if not isinstance(a, tuple):
            a, b = (a,), (b,)
        for x, y in zip(a, b):
            worst = max(worst, abs(x - y))
    return worst


# --------------------------------------------------------------------------
# continuity, minimal representation, removability (polynomial curves)
# --------------------------------------------------------------------------
def continuity(left, right, b, maxorder):
    """Continuity order of a polynomial (non-rational) curve at b between two pieces.

    INF if both sides are the same polynomial, -1 for a jump, else the largest k such
    that derivatives 0..k agree at b.
    """
    if all(p_sub(x, y) == [] for x, y in zip(left["num"], right["num"])):
        return INF
    order = INF
    for x, y in zip(left["num"], right["num"]):
        d = p_sub(x, y)
        k = -1
        while k + 1 <= maxorder and p_eval(d, b) == 0:
            k += 1
            d = p_der(d)
            if d == []:
                k = INF
                break
        order = min(order, k)
    return order


def analysis(state):
    """For a polynomial curve: (true degree d, [(break, continuity order)] for interior distinct knots)."""
    L, P, W = state
    assert W is None
    p = kv_degree(L)
    breaks, comps = pieces(state)
    d = 0
    for c in comps:
        for poly in c["num"]:
            d = max(d, len(poly) - 1)
    conts = []
    for s in range(1, len(breaks) - 1):
        conts.append((breaks[s], continuity(comps[s - 1], comps[s], breaks[s], p)))
    return d, conts


def minimal_form(state):
    """(degree, knot list) of the unique minimal B-spline representation of a polynomial curve."""
    L, P, W = state
    d, conts = analysis(state)
    out = [L[0]] * (d + 1)
    for b, c in conts:
        if c >= INF:
            continue
        out += [b] * (d - c)
    out += [L[-1]] * (d + 1)
    return d, out


def needed_mult(p, c):
    """Multiplicity a knot with continuity order c needs in degree p."""
    if c >= INF:
        return 0
    return max(0, p - c)


def removable(state, nodes):
    """Exactly removable (polynomial curve)?  nodes: multiset of interior knots present in L."""
    L, P, W = state
    p = kv_degree(L)
    _, conts = analysis(state)
    cont = dict(conts)
    req = {}
    for x in nodes:
        req[x] = req.get(x, 0) + 1
    for x, r in req.items():
        m = kv_mult(L, x)
        if x not in cont or r > m:
            return False
        if m - r < needed_mult(p, cont[x]):
            return False
    return True


def reducible(state, t):
    """Degree reduction by t is exactly possible on the vector with every multiplicity lowered by t."""
    L, P, W = state
    p = kv_degree(L)
    d, conts = analysis(state)
    if t > p or d > p - t:
        return False
    for b, c in conts:
        m = kv_mult(L, b)
        if m - t < 0:
            return False
        if m - t < needed_mult(p - t, c):
            return False
    return True


def l2_deviation(s1, s2):
    """Exact per-coordinate integral of (s1 - s2)^2 for polynomial curves; list of Fractions."""
    assert s1[2] is None and s2[2] is None
    b1, c1 = pieces(s1)
    b2, c2 = pieces(s2)
    allb = sorted(set(b1) | set(b2))
    dim = len(c1[0]["num"])
    out = [Fraction(0)] * dim
    for lo, hi in zip(allb, allb[1:]):
        i1 = max(i for i in range(len(b1) - 1) if b1[i] <= lo)
        i2 = max(i for i in range(len(b2) - 1) if b2[i] <= lo)
        for c in range(dim):
            d = p_sub(c1[i1]["num"][c], c2[i2]["num"][c])
            out[c] += p_int(p_mul(d, d), lo, hi)
    return out


# --------------------------------------------------------------------------
# quadrature
# --------------------------------------------------------------------------
def moment_defect(nodes, weights, upto):
    """max_k |sum_i w_i x_i^k - 1/(k+1)| for k < upto, in exact arithmetic on the given values."""
    xs = [Fr(x) for x in nodes]
    ws = [Fr(w) for w in weights]
    worst = Fraction(0)
    for k in range(upto):
        s = sum(w * x ** k for w, x in zip(ws, xs))
        worst = max(worst, abs(s - Fraction(1, k + 1)))
    return worst
