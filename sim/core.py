"""Core of the simulator: seeds, plans, run context, batches, shrinking, evidence, exit protocol.

One run  = executing one PLAN (a JSON document, pure function of one integer seed) against the
           real library under /repo/src, with per-step oracles.  The executor draws no randomness.
One batch = many runs on a fork pool; violations are shrunk (ddmin over the plan), written as replay
           files and confirmed by replaying them in a fresh interpreter.
"""
import collections
import concurrent.futures as cf
import faulthandler
import gc
import hashlib
import json
import multiprocessing
import os
import random
import signal
import subprocess
import sys
import time
import traceback

VERIF = os.path.dirname(os.path.dirname(os.path.abspath(__file__)))
SRC_ROOT = os.environ.get("VERIF_SRC_ROOT", "/repo/src")  # alternative root only for the sensitivity self-test
EVIDENCE_DIR = os.environ.get("VERIF_EVIDENCE_DIR", os.path.join(VERIF, "evidence"))
REPLAY_DIR = os.environ.get("VERIF_REPLAY_DIR", os.path.join(VERIF, "replays"))
KNOWN_FILE = os.path.join(VERIF, "known_findings.json")


def import_library():
    """Put the working tree's sources first on sys.path and import the package from there."""
    if sys.path[0] != SRC_ROOT:
        sys.path.insert(0, SRC_ROOT)
    import warnings
    with warnings.catch_warnings():
        warnings.simplefilter("ignore")
        import compmec.nurbs as nurbs
        from compmec.nurbs import heavy
    here = os.path.realpath(heavy.__file__)
    if not here.startswith(os.path.realpath(SRC_ROOT)):
        raise HarnessError("library imported from %s, expected under %s" % (here, SRC_ROOT))
    return nurbs


class HarnessError(Exception):
    """A defect of the machinery itself (never reported as a VIOLATION)."""


class Violation(Exception):
    def __init__(self, oracle, klass, detail, step):
        super().__init__("%s [%s] step %s: %s" % (oracle, klass, step, detail))
        self.oracle, self.klass, self.detail, self.step = oracle, klass, detail, step

    def as_dict(self):
        return {"oracle": self.oracle, "klass": self.klass, "detail": self.detail, "step": self.step}


def run_seed(base_seed, prop, index):
    h = hashlib.sha256(("%d|%s|%d" % (base_seed, prop, index)).encode()).digest()
    return int.from_bytes(h[:8], "big")


# --------------------------------------------------------------------------
# known findings
# --------------------------------------------------------------------------
def load_known():
    if not os.path.exists(KNOWN_FILE):
        return []
    with open(KNOWN_FILE) as f:
        doc = json.load(f)
    return doc.get("findings", [])


def known_match(known, prop, oracle, klass):
    """Index of the known finding that lists exactly this (property, oracle, class), else None."""
    for i, k in enumerate(known):
        if k["property"] != prop:
            continue
        for m in k["match"]:
            if m["oracle"] == oracle and klass in m["classes"]:
                return i
    return None


# --------------------------------------------------------------------------
# run context
# --------------------------------------------------------------------------
class Ctx:
    """Per-run bookkeeping: event log, counters, oracle reporting."""

    def __init__(self, prop, known):
        self.prop = prop
        self.known = known
        self.events = []
        self.stats = collections.Counter()
        self.step = -1
        self.known_hits = collections.Counter()
        self.transitions = 0
        self.faults_fired = 0
        self.reach = set()

    def log(self, *items):
        self.events.append([self.step] + list(items))

    def count(self, key, n=1):
        self.stats[key] += n

    def probe(self, name):
        self.stats["probe:" + name] += 1

    def fault(self, kind):
        self.stats["fault_fired:" + kind] += 1
        self.faults_fired += 1

    def oracle(self, name):
        self.stats["oracle:" + name] += 1

    def state(self, key):
        self.reach.add(key)

    def fail(self, oracle, klass, detail):
        """Report a property violation.  A listed known finding is counted and the run goes on."""
        idx = known_match(self.known, self.prop, oracle, klass)
        if idx is not None:
            self.known_hits[idx] += 1
            self.log("KNOWN", oracle, klass)
            return
        raise Violation(oracle, klass, detail, self.step)

    def digest(self):
        return hashlib.sha256(json.dumps(self.events, sort_keys=True, default=str).encode()).hexdigest()


def execute(engine, plan, known=None):
    """Run one plan.  Returns a result dict; never raises for library behaviour."""
    if known is None:
        known = load_known()
    ctx = Ctx(plan["property"], known)
    gc_was = gc.isenabled()
    gc.disable()
    violation = None
    try:
        engine.run(plan, ctx)
    except Violation as v:
        violation = v.as_dict()
        ctx.log("VIOLATION", v.oracle, v.klass)
    except HarnessError:
        raise
    except Exception as e:  # noqa
        # An exception that escaped from a library call the engines make without expecting failure (copying a
        # valid object, reading a property, building a Function on a valid vector ...).  If the innermost frame is
        # library code this is the library refusing a valid request in the middle of a history: reported as a
        # violation of the property being checked.  Anything else is a defect of the harness and is re-raised.
        tb = traceback.extract_tb(e.__traceback__)
        inner = tb[-1].filename if tb else ""
        lib_frames = [f for f in tb if os.path.realpath(f.filename).startswith(os.path.realpath(SRC_ROOT))]
        if not lib_frames or not (os.path.realpath(inner).startswith(os.path.realpath(SRC_ROOT)) or "site-packages" in inner or "/lib/python" in inner):
            raise
        where = lib_frames[-1]
        v = Violation("valid-call-raised", "%s" % (where.name,), "%s: %s raised inside %s (%s:%d) during a call that is valid for this state"
                      % (type(e).__name__, str(e)[:120], where.name, os.path.basename(where.filename), where.lineno), ctx.step)
        violation = v.as_dict()
        ctx.log("VIOLATION", v.oracle, v.klass)
    finally:
        engine.cleanup()
        gc.collect()
        if gc_was:
            gc.enable()
    return {
        "violation": violation,
        "digest": ctx.digest(),
        "events": ctx.events,
        "stats": dict(ctx.stats),
        "known_hits": dict(ctx.known_hits),
        "nontrivial": ctx.transitions > 0 and ctx.faults_fired > 0,
        "reach": sorted(ctx.reach),
        "steps": len(plan.get("ops", [])),
    }


# --------------------------------------------------------------------------
# shrinking (ddmin over the op list, then engine-specific simplifications)
# --------------------------------------------------------------------------
def same_failure(res, target):
    v = res["violation"]
    return v is not None and v["oracle"] == target["oracle"] and v["klass"] == target["klass"]


def shrink(engine, plan, target, known, budget_s=60.0):
    t0 = time.time()
    best = plan
    tries = 0

    def attempt(cand):
        nonlocal best, tries
        tries += 1
        try:
            r = execute(engine, cand, known)
        except Exception:
            return False
        if same_failure(r, target):
            best = cand
            return True
        return False

    # 1. truncate after the failing step
    step = target.get("step")
    if isinstance(step, int) and 0 <= step < len(best["ops"]) - 1:
        cand = dict(best, ops=best["ops"][: step + 1])
        attempt(cand)
    # 2. ddmin on ops
    n = 2
    while len(best["ops"]) >= 2 and time.time() - t0 < budget_s:
        ops = best["ops"]
        size = max(1, len(ops) // n)
        removed = False
        for start in range(0, len(ops), size):
            cand_ops = ops[:start] + ops[start + size:]
            if not cand_ops:
                continue
            if attempt(dict(best, ops=cand_ops)):
                removed = True
                n = max(n - 1, 2)
                break
            if time.time() - t0 > budget_s:
                break
        if not removed:
            if size == 1:
                break
            n = min(len(ops), n * 2)
    # 3. engine-specific simplification candidates
    if hasattr(engine, "simplify"):
        progress = True
        while progress and time.time() - t0 < budget_s:
            progress = False
            for cand in engine.simplify(best):
                if attempt(cand):
                    progress = True
                    break
                if time.time() - t0 > budget_s:
                    break
    return best, tries


# --------------------------------------------------------------------------
# batch
# --------------------------------------------------------------------------
_WORKER = {}
RUN_HANG_LIMIT_S = 600


class _RunHang(BaseException):
    pass


def _on_alarm(signum, frame):
    raise _RunHang()


def _worker_init(engine_name, prop):
    faulthandler.enable()
    signal.signal(signal.SIGALRM, _on_alarm)
    from . import engines
    _WORKER["engine"] = engines.get(engine_name)
    _WORKER["engine"].setup()
    _WORKER["known"] = load_known()
    _WORKER["prop"] = prop


def _worker_chunk(args):
    try:
        return _worker_chunk_inner(args)
    except HarnessError:
        raise
    except BaseException:
        raise HarnessError("exception in the harness (worker):\n" + traceback.format_exc())


def _worker_chunk_inner(args):
    base_seed, tier, lo, hi, deadline = args
    eng = _WORKER["engine"]
    prop = _WORKER["prop"]
    known = _WORKER["known"]
    agg = collections.Counter()
    known_hits = collections.Counter()
    nontrivial = set()
    reach = set()
    violations = []
    samples = []
    done = 0
    steps = 0
    first_digests = []
    history = _WORKER.setdefault("history", [])
    for idx in range(lo, hi):
        if time.time() > deadline:
            break
        seed = run_seed(base_seed, prop, idx)
        plan = eng.gen_plan(prop, seed, tier)
        signal.setitimer(signal.ITIMER_REAL, RUN_HANG_LIMIT_S)
        try:
            try:
                res = execute(eng, plan, known)
            except (HarnessError, _RunHang):
                raise
            except Exception:
                raise HarnessError("exception in the harness at run index %d (seed %d):\n%s" % (idx, seed, traceback.format_exc()))
        except _RunHang:
            raise HarnessError("run index %d (seed %d) did not finish within %ds (hang); replay with the plan generator to investigate"
                               % (idx, seed, RUN_HANG_LIMIT_S))
        finally:
            signal.setitimer(signal.ITIMER_REAL, 0)
        done += 1
        steps += res["steps"]
        agg.update(res["stats"])
        known_hits.update(res["known_hits"])
        reach.update(res["reach"])
        if res["nontrivial"]:
            nontrivial.add(res["digest"][:16])
        if len(first_digests) < 2:
            first_digests.append((idx, res["digest"]))
        if res["violation"] is not None:
            if len(violations) < 4:
                # the indices this worker process executed before: process-global state of the library (memo
                # tables, caches) is part of the history, so a violation that does not replay on its own is
                # replayed as a session = earlier plans of the same process followed by the failing plan
                violations.append({"index": idx, "seed": seed, "plan": plan, "violation": res["violation"],
                                   "history": list(history[-3000:])})
            agg["violating_runs"] += 1
        elif len(samples) < 3 and res["nontrivial"]:
            samples.append({"index": idx, "seed": seed, "plan": plan, "events": res["events"][:60]})
        history.append(idx)
    return {"done": done, "steps": steps, "stats": dict(agg), "known_hits": dict(known_hits),
            "nontrivial": sorted(nontrivial), "reach": sorted(reach), "violations": violations,
            "samples": samples, "first_digests": first_digests}


def run_batch(engine_name, prop, tier, base_seed, nruns, wall_cap_s, workers=None, chunk=None):
    workers = workers or int(os.environ.get("VERIF_WORKERS", "0")) or min(16, os.cpu_count() or 1)
    chunk = chunk or max(1, min(200, nruns // (workers * 8) or 1))
    deadline = time.time() + wall_cap_s
    tasks = [(base_seed, tier, lo, min(lo + chunk, nruns), deadline) for lo in range(0, nruns, chunk)]
    ctx = multiprocessing.get_context("fork")
    out = []
    with cf.ProcessPoolExecutor(max_workers=workers, mp_context=ctx, initializer=_worker_init,
                                initargs=(engine_name, prop)) as pool:
        futs = [pool.submit(_worker_chunk, t) for t in tasks]
        hard = wall_cap_s + 600
        t0 = time.time()
        for f in futs:
            remaining = max(1.0, hard - (time.time() - t0))
            try:
                out.append(f.result(timeout=remaining))
            except cf.TimeoutError:
                for g in futs:
                    g.cancel()
                pool.shutdown(wait=False, cancel_futures=True)
                raise HarnessError("worker exceeded hard wall limit (a run hangs)")
            except cf.process.BrokenProcessPool as e:
                raise HarnessError("worker process died: %r" % (e,))
    return out


def merge(results):
    agg = collections.Counter()
    known_hits = collections.Counter()
    nontrivial = set()
    reach = set()
    violations = []
    samples = []
    done = steps = 0
    for r in results:
        done += r["done"]
        steps += r["steps"]
        agg.update(r["stats"])
        known_hits.update({int(k): v for k, v in r["known_hits"].items()})
        nontrivial.update(r["nontrivial"])
        reach.update(tuple(x) if isinstance(x, list) else x for x in r["reach"])
        violations.extend(r["violations"])
        for s in r["samples"]:
            if len(samples) < 3:
                samples.append(s)
    violations.sort(key=lambda v: v["index"])
    return {"done": done, "steps": steps, "stats": agg, "known_hits": known_hits, "nontrivial": nontrivial,
            "reach": reach, "violations": violations, "samples": samples}


# --------------------------------------------------------------------------
# check driver
# --------------------------------------------------------------------------
def execute_session(engine, plans, known=None):
    """Plans executed one after the other in this process (process-global library state carries over, exactly as
    in the worker process where the violation was seen).  Only the last plan's verdict counts: earlier plans are
    history, and a violation inside one of them just ends that plan early, as it did in the worker."""
    if known is None:
        known = load_known()
    res = None
    for plan in plans:
        res = execute(engine, plan, known)
    return res


def replay_file(engine, path):
    with open(path) as f:
        doc = json.load(f)
    if doc.get("session"):
        return doc, execute_session(engine, doc["session"], load_known())
    res = execute(engine, doc["plan"], load_known())
    return doc, res


def fresh_replay(prop, doc):
    """Replay a plan or a session in a fresh interpreter; returns the violation dict or None."""
    os.makedirs(REPLAY_DIR, exist_ok=True)
    tmp = os.path.join(REPLAY_DIR, "tmp-%d-%d.json" % (os.getpid(), int(time.time() * 1e6) % 10 ** 9))
    with open(tmp, "w") as f:
        json.dump(doc, f)
    try:
        p = subprocess.run([os.path.join(VERIF, "check"), prop, "--replay", tmp, "--json"], capture_output=True, text=True, timeout=900)
    finally:
        try:
            os.remove(tmp)
        except OSError:
            pass
    for line in p.stdout.splitlines():
        if line.startswith("RESULT "):
            return json.loads(line[7:])
    raise HarnessError("fresh replay gave no result: %s" % (p.stdout + p.stderr)[-800:])


def shrink_session(prop, plans, target, budget_s=240.0):
    """ddmin over the prefix plans of a session (the failing plan stays last); every attempt runs in a fresh process."""
    t0 = time.time()
    tries = [0]

    def fails(cand):
        tries[0] += 1
        v = fresh_replay(prop, {"session": cand})
        return v is not None and v.get("oracle") == target["oracle"] and v.get("klass") == target["klass"] \
            and "session_index" not in v

    prefix, last = list(plans[:-1]), plans[-1]
    n = 2
    while prefix and time.time() - t0 < budget_s:
        size = max(1, len(prefix) // n)
        removed = False
        for start in range(0, len(prefix), size):
            cand = prefix[:start] + prefix[start + size:]
            if fails(cand + [last]):
                prefix = cand
                n = max(n - 1, 2)
                removed = True
                break
            if time.time() - t0 > budget_s:
                break
        if not removed:
            if size == 1:
                break
            n = min(len(prefix), n * 2)
    # then the ops inside each remaining plan (single deletions, cheapest first)
    for k in list(range(len(prefix))) + [-1]:
        cur = prefix + [last]
        plan = cur[k]
        i = 0
        while i < len(plan["ops"]) and len(plan["ops"]) > 1 and time.time() - t0 < budget_s * 1.5:
            cand_plan = dict(plan, ops=plan["ops"][:i] + plan["ops"][i + 1:])
            cand = list(cur)
            cand[k] = cand_plan
            if fails(cand):
                plan = cand_plan
                cur = cand
            else:
                i += 1
        prefix, last = cur[:-1], cur[-1]
    return prefix + [last], tries[0]


def write_replay(prop, seed, plan, violation, tries, original_len, session=None, note=None):
    os.makedirs(REPLAY_DIR, exist_ok=True)
    path = os.path.join(REPLAY_DIR, "%s-%d.json" % (prop, seed))
    doc = {"property": prop, "seed": seed, "violation": violation, "plan": plan,
           "shrink": {"attempts": tries, "ops_before": original_len, "ops_after": len(plan["ops"])}}
    if session is not None:
        doc["session"] = session
        doc["shrink"]["session_plans"] = len(session)
        doc["note"] = ("the violation needs process-global history: replay executes all plans of 'session' in order in one "
                       "fresh process; the violation occurs in the last one")
    if note:
        doc["note"] = (doc.get("note", "") + " " + note).strip()
    with open(path, "w") as f:
        json.dump(doc, f, indent=1)
        f.write("\n")
    return path


def confirm_in_fresh_process(prop, path):
    """Replay in a fresh interpreter; True iff it reproduces (exit 1 and the VIOLATION line)."""
    cmd = [os.path.join(VERIF, "check"), prop, "--replay", path]
    p = subprocess.run(cmd, capture_output=True, text=True, timeout=600)
    return p.returncode == 1 and ("VIOLATION property=%s" % prop) in p.stdout


def write_evidence(prop, tier, base_seed, coverage, assumptions, wall_s, violations):
    os.makedirs(EVIDENCE_DIR, exist_ok=True)
    doc = {
        "property_id": prop,
        "tier": tier,
        "seed": base_seed,
        "level": "exploration",
        "coverage": coverage,
        "assumptions": assumptions,
        "wall_s": round(wall_s, 3),
        "violations": violations,
    }
    path = os.path.join(EVIDENCE_DIR, "%s.json" % prop)
    tmp = path + ".tmp"
    with open(tmp, "w") as f:
        json.dump(doc, f, indent=1, default=str)
        f.write("\n")
    os.replace(tmp, path)
    return path


def check(prop, engine_name, tier, base_seed, budgets, describe):
    """Full check of one property.  Returns the process exit code."""
    from . import engines
    t0 = time.time()
    eng = engines.get(engine_name)
    eng.setup()
    known = load_known()
    nruns, wall_cap = budgets[tier]
    nruns = int(os.environ.get("VERIF_RUNS", nruns))
    print("check %s engine=%s tier=%s VERIF_SEED=%d runs=%d wall_cap=%ds src=%s"
          % (prop, engine_name, tier, base_seed, nruns, wall_cap, SRC_ROOT), flush=True)
    results = run_batch(engine_name, prop, tier, base_seed, nruns, wall_cap)
    m = merge(results)
    wall_batch = time.time() - t0

    exit_code = 0
    reported = []
    seen_sigs = set()
    for v in m["violations"]:
        sig = (v["violation"]["oracle"], v["violation"]["klass"])
        if sig in seen_sigs or len(reported) >= 3:
            continue
        seen_sigs.add(sig)
        target = v["violation"]

        def matches(x):
            return x is not None and x.get("oracle") == target["oracle"] and x.get("klass") == target["klass"] and "session_index" not in x

        path = None
        if matches(fresh_replay(prop, {"plan": v["plan"]})):
            # the plan fails on its own in a fresh process: shrink in-process, confirm the result in a fresh one
            small, tries = shrink(eng, v["plan"], target, known)
            final = fresh_replay(prop, {"plan": small})
            if not matches(final):
                small, tries, final = v["plan"], 0, fresh_replay(prop, {"plan": v["plan"]})
            path = write_replay(prop, v["seed"], small, final, tries, len(v["plan"]["ops"]))
        else:
            # needs the history of the worker process it occurred in
            plans = [eng.gen_plan(prop, run_seed(base_seed, prop, i), tier) for i in v["history"]] + [v["plan"]]
            if not matches(fresh_replay(prop, {"session": plans})):
                raise HarnessError("violation at run index %d (seed %d, oracle %s) replays neither alone nor with the history of its "
                                   "worker process: the harness is not deterministic" % (v["index"], v["seed"], target["oracle"]))
            small, tries = shrink_session(prop, plans, target)
            final = fresh_replay(prop, {"session": small})
            if not matches(final):
                small, final = plans, fresh_replay(prop, {"session": plans})
            path = write_replay(prop, v["seed"], small[-1], final, tries, len(v["plan"]["ops"]), session=small)
        ok = confirm_in_fresh_process(prop, path)
        if not ok:
            raise HarnessError("replay %s did not reproduce in a fresh process" % path)
        print("VIOLATION property=%s replay=%s" % (prop, path))
        print("  oracle=%s class=%s step=%s detail=%s" % (final["oracle"], final["klass"], final["step"], final["detail"]))
        reported.append({"replay": path, "violation": final})
        exit_code = 1
    for idx, hits in sorted(m["known_hits"].items()):
        k = known[idx]
        print("KNOWN-FINDING: property=%s %s: %s (fired in %d steps of this batch)"
              % (prop, k["id"], k["what"], hits))

    stats = m["stats"]
    faults = {k.split(":", 1)[1]: v for k, v in sorted(stats.items()) if k.startswith("fault_fired:")}
    probes = {k.split(":", 1)[1]: v for k, v in sorted(stats.items()) if k.startswith("probe:")}
    oracles = {k.split(":", 1)[1]: v for k, v in sorted(stats.items()) if k.startswith("oracle:")}
    ops = {k.split(":", 1)[1]: v for k, v in sorted(stats.items()) if k.startswith("op:")}
    other = {k: v for k, v in sorted(stats.items())
             if not k.startswith(("fault_fired:", "probe:", "oracle:", "op:"))}
    for name in describe.get("expected_probes", []):
        if probes.get(name, 0) == 0:
            print("warning: reach probe '%s' was never hit in this batch" % name)
    wall = time.time() - t0
    coverage = {
        "evaluations": m["done"],
        "distinct_nontrivial": len(m["nontrivial"]),
        "rule": describe["rule"],
        "samples": m["samples"] if m["samples"] else [{"note": "no non-trivial fault-bearing run in this batch"}],
        "runs_requested": nruns,
        "runs_per_hour": int(m["done"] / max(wall_batch, 1e-6) * 3600),
        "steps_total": m["steps"],
        "simulated_time": "not applicable: the package has no clock; steps are reported instead",
        "operations": ops,
        "faults_fired_by_kind": faults,
        "oracle_evaluations": oracles,
        "reach_probes": probes,
        "distinct_abstract_states": len(m["reach"]),
        "other_counters": other,
        "known_findings_fired": {known[i]["id"]: n for i, n in m["known_hits"].items()},
        "violating_runs": stats.get("violating_runs", 0),
        "reported": reported,
        "real_components": describe["real"],
        "stub_components": describe["stubs"],
        "workers": int(os.environ.get("VERIF_WORKERS", "0")) or min(16, os.cpu_count() or 1),
    }
    write_evidence(prop, tier, base_seed, coverage, describe["assumptions"], wall, len(reported))
    print("done %s: runs=%d steps=%d distinct_nontrivial=%d states=%d faults_fired=%d wall=%.1fs exit=%d"
          % (prop, m["done"], m["steps"], len(m["nontrivial"]), len(m["reach"]),
             sum(faults.values()), wall, exit_code), flush=True)
    return exit_code


def main_replay(prop, engine_name, path, as_json=False):
    from . import engines
    eng = engines.get(engine_name)
    eng.setup()
    doc, res = replay_file(eng, path)
    v = res["violation"]
    if as_json:
        print("RESULT " + json.dumps(v))
        return 0 if v is None else 1
    if doc.get("session"):
        print("  session of %d plans executed in order; events of the last executed plan follow" % len(doc["session"]))
    for e in res["events"]:
        print("  event", json.dumps(e, default=str))
    if v is None:
        print("replay %s: no violation (property held on this plan)" % path)
        return 0
    print("VIOLATION property=%s replay=%s" % (prop, path))
    print("  oracle=%s class=%s step=%s detail=%s" % (v["oracle"], v["klass"], v["step"], v["detail"]))
    return 1
