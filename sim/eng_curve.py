"""CURVE engine (C15): a world of Curve objects with seeded aliasing layouts and simulated point types.

Oracles after every step (no function-level reference is needed, only that evaluation does not raise):
  I1 consistency      len(ctrlpoints) = npts = len(knotvector) - degree - 1 (= len(weights)); evaluates on the interval
  I2 atomic failure   an operation that raised left its receiver exactly as it was
  I3 operands         non-mutating operations never modify their operands (returned or raised)
  I4 non-interference every curve that is neither receiver nor operand is unchanged (aliases, originals of copies)
  I5 caller data      containers and point objects handed in by the caller are unchanged
"""
import copy
import random
import signal
import time
from fractions import Fraction

from . import model as M
from .core import HarnessError, import_library
from .seams import Seam, SimPoint

OP_TIME_LIMIT_S = 30


class _OpTimeout(BaseException):
    pass


class _AbandonRun(Exception):
    pass


def _raise_op_timeout(signum, frame):
    raise _OpTimeout()


def rng_free_same_type(p, q):
    """Same kind of control point (so that a junction point can be shared by value)."""
    return type(p) is type(q) and getattr(p, "shape", None) == getattr(q, "shape", None) and getattr(p, "dtype", None) == getattr(q, "dtype", None)


TS = ["1/2", "1/3", "2/3", "1/4", "3/4", "1/5", "5/8"]
MAXWORLD = 6
PROFILES = ["frac", "frac", "vec", "fvec", "fvec", "ffloat", "zarr", "ivec", "sim-full", "sim-minimal", "sim-nofloat", "sim-bounded", "sim-inplace", "sim-floatable"]
MUTATORS = ["knot_insert", "knot_remove", "degree_increase", "degree_decrease", "knot_clean", "degree_clean", "clean",
            "set_ctrlpoints", "set_weights", "set_knotvector", "set_knotvector", "set_degree", "update", "fit_curve", "fit_points",
            "fit_function", "apply"]
COMPOSITE = ("knot_clean", "degree_clean", "clean")
NONMUT = ["eval", "eval", "split", "join", "concat", "arith", "arith", "arith_scalar", "arith_scalar", "neg", "eq", "copy", "fraction",
          "derivate", "integrate", "project", "intersect", "str"]


# --------------------------------------------------------------------------
# plan generation
# --------------------------------------------------------------------------
def gen_spec(rng, cls, dimflag, rational, maxp=3, maxint=2):
    p = rng.randint(0, maxp)
    nint = rng.randint(0, maxint)
    if cls == "float":
        vals = sorted(set(Fraction(rng.randint(-128, 192), 64) for _ in range(nint + 2)))
    else:
        vals = sorted(set(Fraction(rng.randint(-3 * d, 4 * d), d) for d in [rng.choice([1, 1, 2, 3, 4, 8, 12, 48]) for _ in range(nint + 2)]))
    if rng.random() < 0.2:
        vals = sorted(set(vals + [Fraction(0)]))
    while len(vals) < 2:
        vals = sorted(set(vals + [vals[-1] + 1]))
    mults = [p + 1] + [rng.randint(1, p + 1) for _ in vals[1:-1]] + [p + 1]
    npts = sum(mults) - p - 1
    pts = [[M.enc(Fraction(rng.randint(-9, 9), rng.choice([1, 1, 1, 2, 3]))) for _ in range(2)] for _ in range(npts)]
    spec = {"p": p, "knots": [M.enc(v) for v in vals], "mults": mults, "pts": pts}
    if rational:
        spec["weights"] = [M.enc(Fraction(rng.choice([1, 1, 2, 3, 5]), rng.choice([1, 1, 2, 4]))) for _ in range(npts)]
    return spec


def gen_plan(prop, seed, tier):
    rng = random.Random(seed)
    cls = rng.choice(["frac", "frac", "float"])
    profile = rng.choice(PROFILES)
    if profile in ("fvec", "ffloat", "zarr"):
        cls = "float"
    cfg = {"cls": cls, "profile": profile, "fault_rate": rng.choice([0.0, 0.2, 0.4, 0.55]),
           "wfloat": rng.random() < 0.5}
    if profile == "sim-bounded":
        cfg["bound"] = rng.choice([40, 300, 4000, 10 ** 6])
    ops = []
    ncreate = rng.randint(1, 3) if profile != "fvec" else rng.randint(2, 3)
    for i in range(ncreate):
        layout = rng.choice(["independent", "independent", "shared-kv", "shared-all", "copy", "deepcopy", "elevated-line", "adjacent"]) if i > 0 else \
            rng.choice(["independent", "independent", "independent", "elevated-line"])
        rational = rng.random() < 0.4
        if profile == "fvec" and rng.random() < 0.4:
            layout = "elevated-line"
        noctrl = rng.random() < 0.10
        spec = gen_spec(rng, cls, 2, (rational and not noctrl) or (noctrl and rng.random() < 0.6))   # bare or weights-only when noctrl
        if noctrl and "weights" in spec and rng.random() < 0.7:
            # a curve that carries weights only, with strongly varying weights (a lossy refit may then change sign)
            spec["weights"] = [M.enc(Fraction(rng.choice([1, 1, 2, 5, 8, 1, 3]), rng.choice([1, 1, 3, 4, 5, 20]))) for _ in spec["weights"]]
        ops.append({"op": "create", "layout": layout, "src": rng.randrange(8), "spec": spec, "noctrl": noctrl})
        if (not noctrl) and layout == "independent" and "weights" in spec and rng.random() < 0.35:
            # a rational curve with strongly varying weights, a coarse empty curve on the same interval, and a fit of the
            # coarse one to the rational one (the projected denominator may change sign: the fit must then fail atomically)
            spec["weights"] = [M.enc(Fraction(rng.choice([1, 1, 2, 5, 8, 1, 3]), rng.choice([1, 1, 3, 4, 5]))) for _ in spec["weights"]]
            ops.append({"op": "create", "layout": "coarse-of", "src": -1, "spec": {"p": rng.randint(0, 2)}, "noctrl": True,
                        "prefill": rng.random() < 0.5})
            ops.append({"op": "fit_curve", "a": -1, "b": -2, "faulty": False, "r": rng.randrange(1 << 30)})
        if noctrl and layout == "independent" and "weights" in spec:
            # forced (lossy) changes of the knot vector of the weights-only curve just created (a = -1: the newest curve)
            for _ in range(rng.randint(1, 3)):
                ops.append({"op": rng.choice(["knot_remove", "degree_decrease", "update", "knot_insert", "degree_increase"]),
                            "a": -1, "b": rng.randrange(8), "faulty": False, "r": rng.randrange(1 << 30), "tolnone": True})
    nops = rng.randint(3, 22 if tier == "thorough" else 12)
    for _ in range(nops):
        faulty = rng.random() < cfg["fault_rate"]
        if rng.random() < 0.55:
            k = rng.choice(MUTATORS)
        else:
            k = rng.choice(NONMUT)
        op = {"op": k, "a": rng.randrange(8), "b": rng.randrange(8), "faulty": faulty, "r": rng.randrange(1 << 30)}
        if k == "create":
            continue
        ops.append(op)
        if rng.random() < 0.08:
            ops.append({"op": "create", "layout": rng.choice(["shared-kv", "shared-all", "copy", "deepcopy", "independent", "elevated-line", "adjacent"]),
                        "src": rng.randrange(8), "spec": gen_spec(rng, cls, 2, rng.random() < 0.4), "noctrl": False})
    return {"property": prop, "engine": "curve", "seed": seed, "tier": tier, "config": cfg, "ops": ops}


# --------------------------------------------------------------------------
# executor
# --------------------------------------------------------------------------
class CurveEngine:
    name = "curve"
    gen_plan = staticmethod(gen_plan)

    def setup(self):
        self.lib = import_library()
        import numpy
        self.np = numpy
        self.Curve = self.lib.Curve
        self.KnotVector = self.lib.KnotVector

    def cleanup(self):
        pass

    # ----- values ------------------------------------------------------------
    def num(self, fr):
        return float(fr) if self.cfg["cls"] == "float" else Fraction(fr)

    def mkpoint(self, coords):
        prof = self.cfg["profile"]
        c = [M.dec(x) if isinstance(x, str) else Fraction(x) for x in coords]
        if prof == "frac":
            v = c[0]
            return int(v) if v.denominator == 1 else v
        if prof == "ffloat":
            return float(c[0])
        if prof == "zarr":
            return self.np.array(float(c[0]))       # a 0-dimensional (mutable) ndarray used as a scalar control point
        if prof == "vec":
            return self.np.array([Fraction(x) for x in c], dtype=object)
        if prof == "fvec":
            return self.np.array([float(x) for x in c], dtype="float64")
        if prof == "ivec":
            return self.np.array([int(x) for x in c], dtype="int64")
        return SimPoint(c, prof[4:], self.seam, self.cfg.get("bound"))

    def mkweights(self, ws):
        out = []
        for w in ws:
            v = M.dec(w) if isinstance(w, str) else Fraction(w)
            out.append(float(v) if (self.cfg["cls"] == "float" or self.cfg["wfloat"]) else v)
        return out

    def knots_of(self, spec):
        L = []
        for k, m in zip(spec["knots"], spec["mults"]):
            L += [self.num(M.dec(k))] * m
        return L

    # ----- snapshots ----------------------------------------------------------
    def item(self, x):
        np = self.np
        if isinstance(x, SimPoint):
            return ("SimPoint", tuple(M.enc(c) for c in x.c))
        if isinstance(x, np.ndarray):
            if x.dtype == object:
                return ("ndarray", "O", x.shape, tuple(self.item(v) for v in x.ravel().tolist()))
            return ("ndarray", str(x.dtype), x.shape, x.tobytes())
        try:
            return (type(x).__name__, M.enc(M.Fr(x)))
        except (TypeError, ValueError):
            return (type(x).__name__, repr(x))

    def freeze(self, curve):
        kv = tuple(self.item(k) for k in curve.knotvector)
        cp = None if curve.ctrlpoints is None else tuple(self.item(p) for p in curve.ctrlpoints)
        ws = None if curve.weights is None else tuple(self.item(w) for w in curve.weights)
        return (kv, curve.knotvector.degree, cp, ws)

    def freeze_input(self, obj):
        if isinstance(obj, self.KnotVector):
            return ("KnotVector", tuple(self.item(k) for k in obj), obj.degree)
        if isinstance(obj, list):
            return ("list", tuple(self.item(x) for x in obj))
        return self.item(obj)

    def point_exact(self, pt):
        if isinstance(pt, SimPoint):
            return tuple(pt.c)
        if isinstance(pt, self.np.ndarray):
            if pt.ndim != 1:
                raise TypeError("not a simple point")
            return tuple(M.Fr(x) for x in pt.tolist())
        return M.Fr(pt)

    def alpha(self, curve):
        try:
            L = [M.Fr(k) for k in curve.knotvector]
            P = [self.point_exact(pt) for pt in curve.ctrlpoints]
            W = None if curve.weights is None else [M.Fr(w) for w in curve.weights]
        except (TypeError, ValueError):
            return None
        if len(set(len(p) if isinstance(p, tuple) else 0 for p in P)) != 1:
            return None
        return (L, P, W)

    # ----- I1 -------------------------------------------------------------------
    def check_consistent(self, ctx, curve, where):
        ctx.oracle("I1-consistency")
        kv = curve.knotvector
        L = list(kv)
        try:
            Lx = [M.Fr(k) for k in L]
        except (TypeError, ValueError):
            ctx.fail("I1-inconsistent", where, "non-numeric knot in %r" % (L,))
            return
        p = M.wellformed(Lx)
        if p is None:
            ctx.fail("I1-inconsistent", where, "the curve's knot vector %s is not a clamped knot vector" % [M.enc(x) for x in Lx])
            return
        npts = len(L) - p - 1
        if curve.degree != p or curve.npts != npts:
            ctx.fail("I1-inconsistent", where, "degree/npts = %r/%r, knot vector says %d/%d" % (curve.degree, curve.npts, p, npts))
            return
        if curve.weights is not None and len(curve.weights) != npts:
            ctx.fail("I1-inconsistent", where + ("" if curve.ctrlpoints is not None else "-weights-only"),
                     "len(weights) = %d but npts = %d" % (len(curve.weights), npts))
            return
        if curve.ctrlpoints is None:
            return
        if len(curve.ctrlpoints) != npts:
            ctx.fail("I1-inconsistent", where, "len(ctrlpoints) = %d but npts = %d" % (len(curve.ctrlpoints), npts))
            return
        st = self.alpha(curve)
        if st is None:
            ctx.count("I1_eval_skipped_non_numeric_points")
            return
        if st[2] is not None and any(w <= 0 for w in st[2]):
            ctx.count("I1_eval_skipped_nonpositive_weights")
            return
        isf = any(isinstance(k, float) for k in L)
        ks = M.kv_knots(Lx)
        us = list(ks)
        for a, b in zip(ks, ks[1:]):
            us.append((a + b) / 2)
        ctx.oracle("I1-evaluates")
        for u in us:
            try:
                M.curve_eval(st, u)
            except ZeroDivisionError:
                ctx.count("I1_reference_weight_function_zero")
                return
            node = float(u) if isf else u
            if isf and M.Fr(node) != u:
                continue
            try:
                curve(node)
            except Exception as e:  # noqa
                ctx.fail("I1-not-evaluable", where, "curve(%s) raised %s: %s" % (M.enc(u), type(e).__name__, e))
                return

    # ----- run ------------------------------------------------------------------
    def run(self, plan, ctx):
        self.cfg = plan["config"]
        self.seam = Seam(ctx)
        self.world = []
        self.inputs = []   # (object handed to the library by the caller, its frozen content)
        for step, op in enumerate(plan["ops"]):
            ctx.step = step
            kind = op["op"]
            ctx.count("op:" + kind)
            if kind == "create":
                self.op_create(ctx, op)
                continue
            if not self.world:
                continue
            try:
                self.step(ctx, op)
            except _AbandonRun:
                return

    def add(self, ctx, curve, where):
        if not isinstance(curve, self.Curve):
            return
        self.check_consistent(ctx, curve, where)
        self.world.append(curve)
        if len(self.world) > MAXWORLD:
            self.world.pop(0)

    def remember(self, obj):
        self.inputs.append((obj, self.freeze_input(obj)))
        if len(self.inputs) > 12:
            self.inputs.pop(0)

    def op_create(self, ctx, op):
        spec = op["spec"]
        layout = op["layout"] if self.world else "independent"
        try:
            if layout in ("copy", "deepcopy"):
                src = self.world[op["src"] % len(self.world)]
                new = copy.copy(src) if layout == "copy" else copy.deepcopy(src)
                ctx.probe("layout-" + layout)
            elif layout in ("shared-kv", "shared-all"):
                src = self.world[op["src"] % len(self.world)]
                kvobj = src.knotvector          # the same KnotVector object
                self.remember(kvobj)
                if layout == "shared-all" and src.ctrlpoints is not None:
                    pts = list(src.ctrlpoints)  # the same point objects
                    ws = None if src.weights is None else list(src.weights)
                else:
                    pts = [self.mkpoint(c) for c in self.fit_len(spec["pts"], src.npts)]
                    ws = self.mkweights(self.fit_len(spec["weights"], src.npts)) if "weights" in spec else None
                self.remember(pts)
                new = self.Curve(kvobj, pts, ws)
                ctx.probe("layout-" + layout)
            elif layout == "coarse-of":
                src = self.world[op["src"] % len(self.world)]
                lo, hi = src.knotvector.limits
                q = spec["p"]
                new = self.Curve([lo] * (q + 1) + [hi] * (q + 1))
                if op.get("prefill"):
                    new.ctrlpoints = [self.mkpoint([j, -j]) for j in range(q + 1)]     # something to lose if the fit is not atomic
                ctx.probe("layout-coarse-of")
            elif layout == "adjacent":
                # a curve of its own degree whose interval begins exactly where another curve's interval ends (operands of `|`)
                src = self.world[op["src"] % len(self.world)]
                L0 = self.knots_of(spec)
                end = src.knotvector[-1]
                L = [end + (k - L0[0]) for k in L0]
                pts = [self.mkpoint(c) for c in spec["pts"]]
                if src.ctrlpoints is not None and rng_free_same_type(src.ctrlpoints[-1], pts[0]):
                    pts[0] = copy.deepcopy(src.ctrlpoints[-1])      # a continuous junction
                self.remember(pts)
                new = self.Curve(L, pts, self.mkweights(spec["weights"]) if "weights" in spec else None)
                ctx.probe("layout-adjacent")
            elif layout == "elevated-line":
                # a straight segment or polyline whose degree was raised by the library: every Bezier piece is reducible,
                # so a "non-mutating" operation that cleans its pieces must not be working on the operand itself
                ks = [M.dec(k) for k in spec["knots"]]
                L = [self.num(ks[0])] * 2 + [self.num(k) for k in ks[1:-1]] + [self.num(ks[-1])] * 2
                base = [M.dec(x) for x in spec["pts"][0]]
                step = [M.dec(x) for x in spec["pts"][-1]]
                if all(v == 0 for v in step):
                    step = [Fraction(1), Fraction(2)]
                pts = [self.mkpoint([b + (j + (j * j if j % 2 else 0)) * d for b, d in zip(base, step)]) for j in range(len(ks))]
                new = self.Curve(L, pts)
                new.degree_increase(1 + spec["p"] % 2)
                ctx.probe("layout-elevated-line")
            else:
                L = self.knots_of(spec)
                pts = None if op.get("noctrl") else [self.mkpoint(c) for c in spec["pts"]]
                ws = self.mkweights(spec["weights"]) if "weights" in spec else None
                if pts is not None:
                    self.remember(pts)
                new = self.Curve(L, pts, ws)
                if pts is None and ws is not None:
                    ctx.probe("layout-weights-only")
        except Exception as e:  # noqa
            if layout == "independent":
                # Curve(valid clamped knot vector, npts points[, positive weights]) is the start of every history the
                # property quantifies over; when even that raises, the curve cannot "evaluate on its whole interval"
                ctx.fail("I1-not-constructible", "create", "Curve(knots, points, weights) with valid data raised %s: %s" % (type(e).__name__, e))
                return
            # building from another curve of the world can fail when that curve is unusual (no control
            # points, custom result types); creation is history, not a judged step
            ctx.count("create_skipped:" + type(e).__name__)
            return
        self.add(ctx, new, "create")
        ctx.log("create", layout, new.degree, new.npts)

    @staticmethod
    def fit_len(items, n):
        out = list(items)
        while len(out) < n:
            out.append(out[len(out) % max(1, len(items))])
        return out[:n]

    # ----- one step -----------------------------------------------------------------
    def step(self, ctx, op):
        kind = op["op"]
        rng = random.Random(op["r"])     # argument details are a pure function of the plan
        world = self.world
        a = world[op["a"] % len(world)]
        b = world[op["b"] % len(world)]
        pre = [self.freeze(c) for c in world]
        self.cur_op = op
        self.cur_operands = None
        call, receiver, invalid, label = self.prepare(ctx, kind, a, b, op["faulty"], rng)
        if self.cur_operands is not None:
            a, b = self.cur_operands
        if call is None:
            ctx.log(kind, "skip")
            return
        composite = kind in COMPOSITE
        if not composite:
            self.seam.arm()
        exc = None
        result = None
        guard = kind in ("project", "intersect")     # numeric searches without a step bound (C19/C20 territory)
        if guard:
            old_handler = signal.signal(signal.SIGALRM, _raise_op_timeout)
            old_timer = signal.setitimer(signal.ITIMER_REAL, OP_TIME_LIMIT_S)
            t_start = time.time()
        try:
            result = call()
        except _OpTimeout:
            # a search that does not come back is not a verdict about C15: the run ends here, unjudged
            self.seam.disarm()
            ctx.count("search_did_not_terminate_run_abandoned")
            ctx.log(kind, "abandoned")
            raise _AbandonRun()
        except Exception as e:  # noqa
            exc = e
        finally:
            if guard:
                signal.setitimer(signal.ITIMER_REAL, 0)
                signal.signal(signal.SIGALRM, old_handler)
                if old_timer[0] > 0:
                    signal.setitimer(signal.ITIMER_REAL, max(1.0, old_timer[0] - (time.time() - t_start)))
            fired = self.seam.disarm() if not composite else False
        if invalid:
            ctx.fault("invalid-request:" + label)
        post = [self.freeze(c) for c in world]
        ridx = None if receiver is None else [i for i, c in enumerate(world) if c is receiver][0]
        if exc is not None:
            ctx.count("raised:" + kind)
            if ridx is not None:
                ctx.oracle("I2-atomic-failure")
                if post[ridx] != pre[ridx]:
                    ctx.fail("I2-not-atomic", label, "%s raised %s (%s) but its receiver changed: %s"
                             % (label, type(exc).__name__, str(exc)[:80], self.diff(pre[ridx], post[ridx])))
                if len([1 for c in world if c.knotvector is receiver.knotvector]) > 1:
                    ctx.probe("refusal-in-aliased-world")
        elif ridx is not None and post[ridx] != pre[ridx]:
            ctx.transitions += 1
        # I3 / I4: everything except the receiver is unchanged
        ctx.oracle("I3-I4-others-unchanged")
        for i, c in enumerate(world):
            if i == ridx:
                continue
            if post[i] != pre[i]:
                role = "operand" if (c is a or c is b) else "bystander"
                ctx.fail("I3-operand-modified" if role == "operand" and receiver is None else "I4-interference", label,
                         "%s changed a curve that is not its receiver (%s): %s" % (label, role, self.diff(pre[i], post[i])))
        # I5: caller's own containers and point objects
        ctx.oracle("I5-caller-data-unchanged")
        for obj, snap in self.inputs:
            if self.freeze_input(obj) != snap:
                # a KnotVector object shared with the receiver may legitimately be *rebound*, never mutated in place
                ctx.fail("I5-caller-data-modified", label, "%s modified an object the caller had passed in earlier (%s)" % (label, snap[0]))
        # I1 on the receiver and on everything returned
        if ridx is not None and (post[ridx] != pre[ridx] or exc is None):
            self.check_consistent(ctx, receiver, "after-" + label)
        if exc is None and kind == "copy" and isinstance(result, self.Curve) and a.ctrlpoints is not None:
            # "copies are independent of the original": a mutable control-point object (custom class, ndarray) must not
            # be the very same object in the copy, otherwise changing the copy's point in place changes the original
            ctx.oracle("copy-independent")
            for pc, po in zip(result.ctrlpoints or (), a.ctrlpoints):
                if pc is po and isinstance(po, (SimPoint, self.np.ndarray)):
                    ctx.fail("copy-shares-state", label, "%s returned a curve whose control point is the SAME %s object as the original's"
                             % (label, type(po).__name__))
            if result.knotvector is a.knotvector:
                ctx.fail("copy-shares-state", label, "%s returned a curve holding the SAME KnotVector object as the original" % label)
        if exc is None and receiver is None:
            outs = result if isinstance(result, (tuple, list)) else (result,)
            for r in outs:
                if isinstance(r, self.Curve) and not any(r is c for c in world):
                    self.add(ctx, r, "returned-by-" + label)
        # after an injected environment fault the type of the exception that surfaces from numpy's object loops
        # is not stable (SystemError / AttributeError / the injected one): it is neither judged nor logged
        ctx.log(kind, label, "ok" if exc is None else ("raise:env-fault" if fired else "raise:" + type(exc).__name__), len(self.world))
        st = self.alpha(a) if a.ctrlpoints is not None else None
        if st is not None:
            ctx.state((kind, exc is None, a.degree, a.weights is not None, self.cfg["profile"]))

    @staticmethod
    def diff(pre, post):
        names = ["knots", "degree", "ctrlpoints", "weights"]
        return ", ".join(n for n, x, y in zip(names, pre, post) if x != y) + " differ"

    # ----- argument construction -------------------------------------------------------
    def knots_info(self, curve):
        raw = list(curve.knotvector)
        ks = []
        for x in raw:
            if not ks or ks[-1] != x:
                ks.append(x)
        return raw, ks

    def mid(self, ks, rng):
        j = rng.randrange(len(ks) - 1)
        t = M.dec(rng.choice(TS))
        a, b = ks[j], ks[j + 1]
        if self.cfg["cls"] == "float":
            v = float(a) + (float(b) - float(a)) * float(t)
            if min(abs(v - float(k)) for k in ks) < 1e-3:
                return None
            return v
        return M.Fr(a) + (M.Fr(b) - M.Fr(a)) * t

    @staticmethod
    def adjacent(x, y):
        try:
            return M.Fr(x.knotvector[-1]) == M.Fr(y.knotvector[0])
        except (TypeError, ValueError):
            return False

    def polyline_like(self, curve):
        """Geometrically a polyline with segments of non-zero length (whatever its degree): every span's samples lie on the
        chord between the span's end points.  Decided with the exact model on the curve's current values."""
        st = self.alpha(curve)
        if st is None or st[2] is not None or not isinstance(st[1][0], tuple):
            return False
        ks = M.kv_knots(st[0])
        if len(ks) > 6:
            return False
        try:
            for a, b in zip(ks, ks[1:]):
                pa, pb = M.curve_eval(st, a), M.curve_eval(st, b)
                if b == ks[-1]:
                    pb = M.curve_eval(st, b)
                chord = [y - x for x, y in zip(pa, pb)]
                if sum(float(c) ** 2 for c in chord) < 1e-6:
                    return False
                for t in (Fraction(1, 3), Fraction(3, 4)):
                    pm = M.curve_eval(st, a + (b - a) * t)
                    if any(abs(float(m - (x + t * c))) > 1e-9 for m, x, c in zip(pm, pa, chord)):
                        return False
                if a != ks[0] and M.kv_mult(st[0], a) > M.kv_degree(st[0]):
                    return False
        except (ZeroDivisionError, ValueError):
            return False
        return True

    def prepare(self, ctx, kind, a, b, faulty, rng):
        """Returns (callable, receiver or None, invalid?, label)."""
        np = self.np
        raw, ks = self.knots_info(a)
        p = a.degree
        has = a.ctrlpoints is not None
        lib = self.lib
        if kind == "knot_insert":
            if faulty:
                r = rng.random()
                if r < 0.35:
                    nodes = [self.num(M.Fr(ks[-1]) + 1)] if rng.random() < 0.5 else [self.num(M.Fr(ks[0]) - Fraction(1, 2))]
                elif r < 0.6:
                    nodes = [ks[rng.randrange(len(ks))]] * (p + 2)
                elif r < 0.8:
                    nodes = [ks[0]]
                else:
                    nodes = ["abc", None]
                return (lambda: a.knot_insert(nodes)), a, True, "knot_insert"
            nodes = []
            for _ in range(rng.randint(1, 2)):
                v = self.mid(ks, rng) if rng.random() < 0.7 or len(ks) < 3 else ks[1 + rng.randrange(len(ks) - 2)]
                if v is not None:
                    nodes.append(v)
            if not nodes:
                return None, None, False, kind
            Lx = [M.Fr(k) for k in raw]
            inv = M.wellformed(sorted(Lx + [M.Fr(v) for v in nodes])) is None
            return (lambda: a.knot_insert(nodes)), a, inv, "knot_insert"
        if kind == "knot_remove":
            if not has and a.weights is None:
                return None, None, False, kind
            if a.weights is not None and (p > 2 or a.npts > 5):
                return None, None, False, kind
            tol = rng.choice([None, 1e-9, 1e-9, 1e-3, 0, "default"])
            if self.cur_op.get("tolnone"):
                tol = None
            if faulty or len(ks) < 3:
                r = rng.random()
                if r < 0.4:
                    v = self.mid(ks, rng)
                    nodes = [v if v is not None else self.num(M.Fr(ks[-1]) + 1)]
                elif r < 0.7:
                    nodes = [ks[rng.choice([0, -1])]]
                elif r < 0.85 and len(ks) > 2:
                    nodes = [ks[1]] * (p + 3)
                else:
                    nodes = 0.5 if rng.random() < 0.5 else ["abc"]
                return (lambda: a.knot_remove(nodes)), a, True, "knot_remove"
            nodes = [ks[1 + rng.randrange(len(ks) - 2)]]
            if tol == "default":
                return (lambda: a.knot_remove(nodes)), a, False, "knot_remove"
            return (lambda: a.knot_remove(nodes, tol)), a, False, "knot_remove"
        if kind == "degree_increase":
            if faulty:
                t = rng.choice([0, -1, "1", 2.0, None])
                return (lambda: a.degree_increase(t)), a, True, "degree_increase"
            t = rng.choice([1, 1, 2])
            if a.npts + t * (len(ks) - 1) > 14:
                return None, None, False, kind
            return (lambda: a.degree_increase(t)), a, False, "degree_increase"
        if kind == "degree_decrease":
            if (not has and a.weights is None) or (a.weights is not None and (p > 2 or a.npts > 5)):
                return None, None, False, kind
            if faulty:
                t = rng.choice([0, -1, p + 1, p + 3, "1", None])
                return (lambda: a.degree_decrease(t)), a, True, "degree_decrease"
            tol = None if self.cur_op.get("tolnone") else rng.choice([1e-9, 1e-9, None, 1e-3])
            t = rng.choice([1, 1, 2, 2, 3])      # multi-degree reductions: the first degree may be feasible, the next not
            if t > max(p, 1):
                t = max(p, 1)
            return (lambda: a.degree_decrease(t, tol)), a, p == 0, "degree_decrease"
        if kind in COMPOSITE:
            if (not has and a.weights is None) or (a.weights is not None and (p > 2 or a.npts > 5)):
                return None, None, False, kind
            if faulty:
                tol = rng.choice([-1.0, None, "x"])
                return (lambda: getattr(a, kind)(tolerance=tol)), a, True, kind + "-bad-tolerance"
            tol = rng.choice([1e-9, 0, 1e-12])
            return (lambda: getattr(a, kind)(tolerance=tol)), a, False, kind
        if kind == "set_ctrlpoints":
            n = a.npts
            if faulty:
                r = rng.random()
                if r < 0.4:
                    newp = [self.mkpoint([rng.randint(-5, 5), rng.randint(-5, 5)]) for _ in range(n + rng.choice([-1, 1, 2]))]
                elif r < 0.55:
                    newp = "abc"
                elif r < 0.7:
                    newp = 5
                elif r < 0.85:
                    newp = [self.mkpoint([1, 2]) for _ in range(n - 1)] + ["abc"] if n > 1 else ["abc"]
                else:
                    newp = [self.mkpoint([1, 2]) for _ in range(n - 1)] + [None] if n > 1 else [None]

                def call():
                    a.ctrlpoints = newp
                return call, a, True, "ctrlpoints-setter"
            newp = [self.mkpoint([rng.randint(-9, 9), rng.randint(-9, 9)]) for _ in range(n)]
            self.remember(newp)

            def call():
                a.ctrlpoints = newp
            return call, a, False, "ctrlpoints-setter"
        if kind == "set_weights":
            n = a.npts
            if faulty:
                r = rng.random()
                if r < 0.35 and n >= 2:
                    ws = self.mkweights([1] * n)
                    ws[rng.randrange(n)] = -ws[0] * 3      # the weight function changes sign
                    if all(w < 0 for w in ws):
                        ws[0] = 1
                elif r < 0.5:
                    ws = self.mkweights([1] * n)
                    ws[0 if rng.random() < 0.5 else -1] = 0 * ws[0]   # zero at an end
                elif r < 0.75:
                    ws = self.mkweights([1] * (n + rng.choice([-1, 1])))
                elif r < 0.9:
                    ws = ["abc"] * n
                else:
                    ws = 3

                def call():
                    a.weights = ws
                return call, a, True, "weights-setter"
            ws = None if rng.random() < 0.2 else self.mkweights([Fraction(rng.randint(1, 6), rng.choice([1, 2])) for _ in range(n)])
            if ws is not None:
                self.remember(ws)

            def call():
                a.weights = ws
            return call, a, False, "weights-setter"
        if kind in ("set_knotvector", "update"):
            if has and a.weights is not None and (p > 2 or a.npts > 5):
                return None, None, False, kind
            Lx = [M.Fr(k) for k in raw]
            inv = False
            if faulty:
                r = rng.random()
                if r < 0.4:
                    newL = [self.num(x + 1) for x in Lx]          # different interval
                elif r < 0.7:
                    newL = [self.num(x) for x in Lx[:-1]]         # ill-formed literal
                else:
                    newL = [k for k in raw if k in (raw[0], raw[-1])]   # coarser: all interior knots dropped
                    if len(newL) == len(raw):
                        newL = [self.num(x + 1) for x in Lx]
                inv = True
            else:
                newL = list(raw)
                v = self.mid(ks, rng)
                if v is not None:
                    newL = sorted(newL + [v])
                if rng.random() < 0.3 and a.npts + len(ks) <= 12:
                    newL = sorted(newL + list(ks))              # elevated
            if kind == "set_knotvector":
                arg = newL
                if not inv and rng.random() < 0.5:
                    try:
                        arg = self.KnotVector(newL)       # a KnotVector INSTANCE (may be adopted by the curve), not a list
                    except Exception:  # noqa
                        arg = newL

                def call():
                    a.knotvector = arg
                return call, a, inv, "knotvector-setter"
            tol = None if self.cur_op.get("tolnone") else rng.choice([1e-9, None, 1e-3])
            if self.cur_op.get("tolnone") and not faulty and len(ks) > 2:
                newL = [k for k in raw if k != ks[1 + rng.randrange(len(ks) - 2)]]   # drop one interior knot entirely
            return (lambda: a.update(newL, tol)), a, inv, "update"
        if kind == "apply":
            # the public linear transformer with the current knot vector and a (scaled) permutation-free matrix
            if not has:
                return None, None, False, kind
            n = a.npts
            c = self.num(Fraction(rng.choice([2, 3, -1]), rng.choice([1, 2])))
            if faulty:
                matrix = [[c if i == j else 0 for j in range(n + 1)] for i in range(n)]       # wrong shape
            else:
                matrix = [[c if i == j else 0 for j in range(n)] for i in range(n)]
            return (lambda: a.apply(a.knotvector, matrix)), a, faulty, "apply"
        if kind == "set_degree":
            if has and a.weights is not None and (p > 2 or a.npts > 5):
                return None, None, False, kind
            if faulty:
                val = rng.choice([-1, "2", 2.5, None, p + 40 if False else -3])
                inv = True
            else:
                val = p + rng.choice([1, 1, -1, -1, -2, -2, 2, 0])
                inv = val < 0
                if val > p and a.npts + (val - p) * (len(ks) - 1) > 14:
                    return None, None, False, kind

            def call():
                a.degree = val
            return call, a, inv, "degree-setter"
        if kind == "fit_curve":
            if not (b.ctrlpoints is not None) or a is b:
                return None, None, False, kind
            if (a.weights is not None or b.weights is not None) and (max(a.degree, b.degree) > 2 or max(a.npts, b.npts) > 5):
                return None, None, False, kind
            inv = list(M.Fr(x) for x in a.knotvector.limits) != list(M.Fr(x) for x in b.knotvector.limits)
            if rng.random() < 0.3:
                return (lambda: a.fit(b)), a, inv, "fit(curve)"
            return (lambda: a.fit_curve(b)), a, inv, "fit_curve"
        if kind == "fit_points":
            n = a.npts
            m = n - 1 if (faulty and n > 1) else n + rng.randint(0, 3)
            pts = [self.mkpoint([rng.randint(-9, 9), rng.randint(-9, 9)]) for _ in range(m)]
            self.remember(pts)
            if rng.random() < 0.3:
                return (lambda: a.fit(pts)), a, m < n, "fit(points)"
            return (lambda: a.fit_points(pts)), a, m < n, "fit_points"
        if kind == "fit_function":
            calls = [0]
            limit = rng.randint(0, 5) if faulty else None
            seam = self.seam
            mk = self.mkpoint

            def f(u):
                calls[0] += 1
                if limit is not None and calls[0] > limit:
                    seam.fail(RuntimeError("user function failed at call %d" % calls[0]), "callable-raises")
                    raise RuntimeError("user function failed")
                try:
                    x = M.Fr(u)
                except (TypeError, ValueError):
                    x = Fraction(0)
                return mk([x, 1 - x])
            if rng.random() < 0.3:
                return (lambda: a.fit(f)), a, limit is not None, "fit(function)"
            return (lambda: a.fit_function(f)), a, limit is not None, "fit_function"
        # ------------------------------------------------------------------ non-mutating
        if kind == "eval":
            if faulty:
                node = self.num(M.Fr(ks[-1]) + 2) if rng.random() < 0.7 else "abc"
                return (lambda: a(node)), None, True, "eval-outside"
            nodes = [k for k in ks[:3]]
            v = self.mid(ks, rng)
            if v is not None:
                nodes.append(v)
            if rng.random() < 0.5:
                return (lambda: a(nodes)), None, not has, "eval-sequence"
            return (lambda: a(nodes[-1])), None, not has, "eval"
        if kind == "split":
            if not has:
                return None, None, False, kind
            if faulty:
                node = self.num(M.Fr(ks[-1]) + 2)
                return (lambda: a.split([node])), None, True, "split-outside"
            if rng.random() < 0.4:
                return (lambda: a.split()), None, False, "split"
            v = self.mid(ks, rng)
            nodes = [v] if v is not None else [ks[len(ks) // 2]]
            return (lambda: a.split(nodes)), None, False, "split"
        if kind == "join":
            if not has:
                return None, None, False, kind
            v = self.mid(ks, rng)
            if v is None:
                return None, None, False, kind

            def call():
                parts = a.split([v])
                if faulty:
                    return parts[1] | parts[0]
                return parts[0] | parts[1]
            return call, None, faulty, "split-join"
        if kind == "concat":
            # left | right on two different curves (of any two degrees) whose intervals are adjacent; anything else is an
            # incompatible request.  Only I3/I4 are judged: neither operand may change, whatever is returned or raised
            pairs = [(x, y) for x in self.world for y in self.world
                     if x is not y and x.ctrlpoints is not None and y.ctrlpoints is not None and self.adjacent(x, y)]
            if not faulty and pairs and not (a is not b and has and b.ctrlpoints is not None and self.adjacent(a, b)):
                a, b = pairs[rng.randrange(len(pairs))]
            ok = a is not b and a.ctrlpoints is not None and b.ctrlpoints is not None and self.adjacent(a, b)
            if ok:
                ctx.probe("concat-adjacent-degrees-%s" % ("equal" if a.degree == b.degree else "left-lower" if a.degree < b.degree else "right-lower"))
            left, right = a, b
            self.cur_operands = (a, b)
            return (lambda: left | right), None, not ok, "curve|curve"
        if kind == "arith":
            sym = rng.choice(["+", "-", "*", "/", "@"])
            if (a.weights is not None or b.weights is not None) and (a.degree + b.degree > 3):
                return None, None, False, kind
            if a.degree + b.degree > 4 or a.npts + b.npts > 9:
                return None, None, False, kind
            fn = {"+": lambda: a + b, "-": lambda: a - b, "*": lambda: a * b, "/": lambda: a / b, "@": lambda: a @ b}[sym]
            inv = list(M.Fr(x) for x in a.knotvector.limits) != list(M.Fr(x) for x in b.knotvector.limits) or not has or b.ctrlpoints is None
            return fn, None, inv, "curve" + sym + "curve"
        if kind == "arith_scalar":
            sym = rng.choice(["+s", "s+", "-s", "s-", "*s", "s*", "/s", "s/", "@M", "M@"])
            s = "abc" if faulty and rng.random() < 0.5 else (self.num(Fraction(rng.randint(1, 5), rng.choice([1, 2]))) if rng.random() < 0.6
                                                              else self.mkpoint([rng.randint(-3, 3), rng.randint(-3, 3)]))
            if faulty and rng.random() < 0.3 and sym == "/s":
                s = 0
            Mx = np.array([[1, 2], [3, 4]], dtype=object)
            fn = {"+s": lambda: a + s, "s+": lambda: s + a, "-s": lambda: a - s, "s-": lambda: s - a, "*s": lambda: a * s,
                  "s*": lambda: s * a, "/s": lambda: a / s, "s/": lambda: s / a, "@M": lambda: a @ Mx, "M@": lambda: Mx @ a}[sym]
            return fn, None, faulty, "curve-scalar " + sym
        if kind == "neg":
            return (lambda: -a), None, not has, "neg"
        if kind == "eq":
            other = b if rng.random() < 0.8 else rng.choice([5, "abc", None])
            if isinstance(other, self.Curve) and (a.weights is not None or other.weights is not None) and \
                    (max(a.degree, other.degree) > 2 or max(a.npts, other.npts) > 5):
                return None, None, False, kind
            if rng.random() < 0.5:
                return (lambda: a == other), None, False, "=="
            return (lambda: a != other), None, False, "!="
        if kind == "copy":
            if rng.random() < 0.5:
                return (lambda: copy.copy(a)), None, False, "copy"
            return (lambda: copy.deepcopy(a)), None, False, "deepcopy"
        if kind == "fraction":
            return (lambda: a.fraction()), None, not has, "fraction"
        if kind == "derivate":
            if has and a.weights is not None and (p > 2 or a.npts > 4):
                return None, None, False, kind
            return (lambda: lib.Derivate(a)), None, not has, "Derivate"
        if kind == "integrate":
            what = rng.choice(["scalar", "lenght"])
            method = rng.choice([None, "closed-newton-cotes", "open-newton-cotes", "chebyshev", "gauss-legendre", "no-such-method" if faulty else None])
            if has and a.weights is not None and what == "lenght" and (p > 2 or a.npts > 4):
                return None, None, False, kind
            g = None
            if faulty and rng.random() < 0.5:
                limit = rng.randint(0, 4)
                calls = [0]
                seam = self.seam

                def g(u):
                    calls[0] += 1
                    if calls[0] > limit:
                        seam.fail(RuntimeError("user weight function failed"), "callable-raises")
                        raise RuntimeError("user weight function failed")
                    return 1
            fn = lib.Integrate.scalar if what == "scalar" else lib.Integrate.lenght
            return (lambda: fn(a, g, method)), None, faulty, "Integrate." + what
        if kind == "project":
            # only straight polylines of float points: Newton's iteration is exact there (the search has no step bound)
            if self.cfg["profile"] != "fvec":
                return None, None, False, kind
            cands = [c for c in self.world if c.ctrlpoints is not None and c.weights is None and self.polyline_like(c)]
            if not cands:
                return None, None, False, kind   # zero-length segment or jump: Newton divides 0/0 and span(nan) never returns
            a = a if any(a is c for c in cands) else cands[rng.randrange(len(cands))]
            pt = (float(rng.randint(-9, 9)), float(rng.randint(-9, 9)) + 0.5)
            return (lambda: lib.Projection.point_on_curve(pt, a)), None, False, "Projection"
        if kind == "intersect":
            if self.cfg["profile"] != "fvec":
                return None, None, False, kind

            def usable(c):
                return c.ctrlpoints is not None and c.weights is None and self.alpha(c) is not None and \
                    (self.polyline_like(c) or (c.degree <= 2 and c.npts <= 4))   # incl. piecewise-constant (degree 0) operands
            cands = [c for c in self.world if usable(c)]
            if len(cands) < 2:
                return None, None, False, kind
            if not (usable(a) and usable(b)) or a is b:
                i = rng.randrange(len(cands))
                a, b = cands[i], cands[(i + 1 + rng.randrange(len(cands) - 1)) % len(cands)]
            return (lambda: lib.Intersection.curve_and_curve(a, b)), None, False, "Intersection"
        if kind == "str":
            return (lambda: str(a)), None, False, "str"
        raise HarnessError("unknown op %r" % kind)

    # ----- shrinking hints -------------------------------------------------------------
    def simplify(self, plan):
        ops = plan["ops"]
        # operand indices are taken modulo the world size, so deleting a 'create' re-targets later steps; offer
        # small explicit indices so that ddmin can then drop the curves that are not involved
        for i, op in enumerate(ops):
            for key in ("a", "b", "src"):
                if key in op and op[key] > 3:
                    for val in (0, 1, 2):
                        yield dict(plan, ops=ops[:i] + [dict(op, **{key: val})] + ops[i + 1:])
        for i, op in enumerate(ops):
            if op["op"] == "create" and len([o for o in ops if o["op"] == "create"]) > 1:
                yield dict(plan, ops=ops[:i] + ops[i + 1:])
        for i, op in enumerate(ops):
            if op.get("faulty"):
                yield dict(plan, ops=ops[:i] + [dict(op, faulty=False)] + ops[i + 1:])
            if op["op"] == "create" and op["layout"] != "independent":
                yield dict(plan, ops=ops[:i] + [dict(op, layout="independent")] + ops[i + 1:])
            if op["op"] == "create" and "weights" in op["spec"]:
                spec = {k: v for k, v in op["spec"].items() if k != "weights"}
                yield dict(plan, ops=ops[:i] + [dict(op, spec=spec)] + ops[i + 1:])
        cfg = plan["config"]
        for prof in ("frac", "vec"):
            if cfg["profile"] != prof and cfg["profile"] not in ("frac",):
                yield dict(plan, config=dict(cfg, profile=prof, cls="frac" if cfg["cls"] != "float" else "float"))


ENGINE = CurveEngine()
