"""Engine registry and the property -> engine table."""
import importlib

_MODULES = {"kv": "eng_kv", "memo": "eng_memo", "ref": "eng_ref", "curve": "eng_curve"}
PROPERTY_ENGINE = {"C03": "kv", "C18": "kv", "C10": "memo", "C04": "ref", "C05": "ref", "C06": "ref",
                   "C14": "ref", "C15": "curve"}


def get(name):
    mod = importlib.import_module("sim." + _MODULES[name])
    return mod.ENGINE
