"""REF engine (C04, C05, C06, C14): Curve objects refined step by step against the exact model.

A run owns 1-2 Curve objects (the second one, when present, is a differently refined representation of
the same function).  Each step is a public mutator call; the abstract state alpha(curve) is re-derived from
the implementation before every judged step, and a check for property X judges only the steps X owns
(insert -> C04, remove -> C05, elevate/reduce -> C06, *_clean -> C14); other steps only build history.
"""
import random
from fractions import Fraction

from . import model as M
from .core import HarnessError, import_library
from .seams import Seam, SimPoint

TS = ["1/2", "1/3", "2/3", "1/4", "3/4", "1/5", "5/8", "7/16"]
TOLS = {"default": "default", "1e-3": 1e-3, "1e-12": 1e-12, "0": 0, "none": None}
BAD = {"str": "abc", "none": None, "list": [0, 1]}
NUMERIC_PROFILES = ("frac", "vec", "fvec", "int-ndarray")
OWNER = {"insert": "C04", "remove": "C05", "elevate": "C06", "reduce": "C06",
         "knot_clean": "C14", "degree_clean": "C14", "clean": "C14", "apply-scale": None, "perturb": None}


# --------------------------------------------------------------------------
# plan generation
# --------------------------------------------------------------------------
def gen_curve_spec(rng, mode, rational, maxp, maxint, profile, dyadic=False, maxnpts=10, bigden=False):
    p = rng.randint(0, maxp)
    nint = rng.randint(0, maxint)
    if bigden:
        # rationals with large, mutually prime denominators (decimal-looking data): exact arithmetic then runs
        # through integers far beyond 64 bits; distinct values stay >= 5e-4 apart
        vals = sorted(set(Fraction(rng.randint(-3000, 4000), 1000) + Fraction(rng.randint(1, 40), rng.choice([99991, 100003, 65537]))
                          for _ in range(nint + 2)))
    elif mode == "float" or dyadic:
        vals = sorted(set(Fraction(rng.randint(-192, 256), 64) for _ in range(nint + 2)))
    else:
        vals = sorted(set(Fraction(rng.randint(-3 * d, 4 * d), d) for d in [rng.choice([1, 1, 2, 3, 4, 6, 8, 12, 16, 24, 48])
                                                                               for _ in range(nint + 2)]))
    if rng.random() < 0.25:
        vals = sorted(set(vals + [Fraction(0)]))
    while len(vals) < 2:
        vals = sorted(set(vals + [vals[-1] + 1]))
    if vals[0] == 0 and len(vals) == 2 and rng.random() < 0.5:
        vals = [Fraction(-1)] + vals  # make 0 an interior knot now and then
    mults = [p + 1] + [rng.randint(1, p + 1) for _ in vals[1:-1]] + [p + 1]
    while sum(mults) - p - 1 > maxnpts and len(vals) > 2:
        vals.pop(1)
        mults.pop(1)
    npts = sum(mults) - p - 1
    dim = 1 if profile == "frac" else 2
    pts = []
    for _ in range(npts):
        c = [Fraction(rng.randint(-9, 9), rng.choice([1, 1, 1, 2, 3])) for _ in range(dim)]
        pts.append([M.enc(x) for x in c])
    spec = {"p": p, "knots": [M.enc(v) for v in vals], "mults": mults, "pts": pts}
    if rational:
        spec["weights"] = [M.enc(Fraction(rng.choice([1, 1, 2, 3, 1, 2, 5]), rng.choice([1, 1, 2, 4]))) for _ in range(npts)]
    return spec


DYADIC_TS = ["1/2", "1/4", "3/4", "5/8", "7/16"]
BIG_TS = ["46504/100000", "67174/100000", "12345/99991", "31/97", "50021/100003", "1/2"]


def _nodes(rng, nmax=3, dyadic=False, bigden=False):
    out = []
    for _ in range(rng.randint(1, nmax)):
        r = rng.random()
        if r < 0.30:
            out.append(["iknot", rng.randrange(8)])
        elif r < 0.38:
            out.append(["zero"])
        else:
            out.append(["mid", rng.randrange(8), rng.choice(DYADIC_TS if dyadic else BIG_TS if bigden else TS)])
    if rng.random() < 0.3:
        out.append(list(out[0]))
    if rng.random() < 0.07:
        # many nodes in one request (11-16), with repeats that are NOT adjacent in the given order
        ts = DYADIC_TS if dyadic else (BIG_TS if bigden else TS)
        many = [["mid", rng.randrange(8), rng.choice(ts)] for _ in range(rng.randint(7, 10))]
        many += [list(rng.choice(many)) for _ in range(rng.randint(3, 5))] + [["iknot", rng.randrange(8)]]
        rng.shuffle(many)
        out = many
    return out


def gen_plan(prop, seed, tier):
    rng = random.Random(seed)
    mode = rng.choice(["exact", "exact", "exact", "float"])
    rational = rng.random() < 0.3
    profile = rng.choice(["frac", "frac", "vec", "vec"])
    if prop in ("C05", "C14") and rng.random() < 0.12:
        profile = "int-ndarray"      # integer-dtype array points: the fitted values must not be squeezed back into int64
    if prop in ("C04", "C06") and rng.random() < 0.25:
        profile = rng.choice(["sim-full", "sim-minimal", "sim-bounded", "sim-nofloat", "sim-floatable", "int-ndarray"])
    if mode == "float" and profile == "vec":
        profile = "fvec"
    if profile.startswith("sim"):
        mode = "exact" if profile != "sim-nofloat" else rng.choice(["exact", "float"])
    if profile == "sim-minimal":
        rational = False
    if profile == "int-ndarray":
        if prop in ("C05", "C14"):
            mode, rational = "exact", False
        else:
            mode = rng.choice(["exact", "float", "float"])
            rational = rng.random() < 0.7
    maxp = 3 if rng.random() < 0.85 else 4
    if rational:
        maxp = min(maxp, 3)
    cfg = {"mode": mode, "rational": rational, "profile": profile, "prop": prop,
           "fault_rate": rng.choice([0.0, 0.15, 0.3, 0.45]), "twin": prop == "C14" and rng.random() < 0.6}
    if profile == "sim-bounded":
        cfg["bound"] = rng.choice([50, 400, 5000, 10 ** 6])
    # 'shadow': every step is first performed on a float twin with the same (dyadic) knot values, so that any state
    # the library keeps between calls (memo tables, caches keyed by value) has a float history when the exact
    # curve arrives - the cross-representation history of C04-C06's "exactly for rational data" clauses
    cfg["shadow"] = mode == "exact" and profile in ("frac", "vec") and rng.random() < 0.35
    # swarm knob (thorough tier only): a few runs use large curves (degree 4, up to 20 control points), where exact
    # elimination meets integers beyond 64 bits and long multiplicity patterns
    large = tier == "thorough" and not rational and mode == "exact" and profile in ("frac", "vec") and rng.random() < 0.06
    cfg["large"] = large
    # (only where insertion is the judged operation: exact least squares over such numbers can take minutes per step)
    cfg["bigden"] = prop == "C04" and mode == "exact" and profile in ("frac", "vec") and not cfg["shadow"] and not rational and rng.random() < 0.12
    if cfg["bigden"]:
        maxp = min(maxp, 3)
    # control points far from the origin (translation must not change any accept / refuse decision)
    cfg["offset"] = rng.choice(["1000000", "3000000", "-2500000"]) if (mode == "exact" and profile in ("frac", "vec") and rng.random() < 0.08) else None
    # control points handed in as row views of ONE parent array, in reversed row order
    cfg["viewpts"] = profile in ("vec", "fvec") and rng.random() < 0.15
    if prop == "C06" and profile == "int-ndarray" and rng.random() < 0.6:
        # a Bezier curve with large INTEGER control points that is exactly the elevation of a lower-degree curve
        # (coordinates are multiples of the degree, so the elevated control points are integers again)
        mode, rational = "exact", False
        cfg["mode"], cfg["rational"], cfg["shadow"], cfg["bigden"] = "exact", False, False, False
        cfg["reducible_int"] = True
    cfg["huge"] = prop == "C04" and mode == "exact" and profile in ("frac", "vec") and not rational and not cfg["shadow"] \
        and not cfg["bigden"] and rng.random() < 0.02
    if cfg["huge"]:
        # a long curve (more than 64 control points): size thresholds inside the library, long index ranges
        hp = rng.randint(1, 2)
        nk = rng.randint(64, 72)
        mults = [hp + 1] + [1 if rng.random() < 0.9 else hp for _ in range(nk)] + [hp + 1]
        npts_h = sum(mults) - hp - 1
        dimh = 1 if profile == "frac" else 2
        cfg["init"] = {"p": hp, "knots": [M.enc(Fraction(i)) for i in range(nk + 2)], "mults": mults,
                       "pts": [[M.enc(Fraction(rng.randint(-9, 9))) for _ in range(dimh)] for _ in range(npts_h)]}
    elif large:
        cfg["init"] = gen_curve_spec(rng, mode, rational, 4, rng.randint(3, 6), "frac" if profile == "frac" else "vec",
                                     dyadic=cfg["shadow"], maxnpts=20)
    else:
        cfg["init"] = gen_curve_spec(rng, mode, rational, maxp, rng.randint(0, 3), "frac" if profile == "frac" else "vec",
                                     dyadic=cfg["shadow"], bigden=cfg["bigden"])
    if cfg.get("reducible_int"):
        pp = rng.randint(1, 3)
        big = rng.choice([1, 7, 5000, 100000, 3000000])
        low = [[pp * (big + rng.randint(-9, 9)) for _ in range(2)] for _ in range(pp)]     # degree pp-1, multiples of pp
        ele = [low[0]] + [[(i * a + (pp - i) * b) // pp for a, b in zip(low[i - 1], low[i])] for i in range(1, pp)] + [low[-1]]
        cfg["init"] = {"p": pp, "knots": ["-1", "2"], "mults": [pp + 1, pp + 1], "pts": [[M.enc(Fraction(x)) for x in pt] for pt in ele]}
    nops = rng.randint(3, 14 if tier == "thorough" else 9)
    weights = {
        "C04": [("insert", 10), ("elevate", 2), ("remove", 2), ("reduce", 1), ("clean", 1)],
        "C05": [("insert", 5), ("remove", 6), ("insert+undo", 5), ("elevate", 1), ("reduce", 1), ("clean", 1)],
        "C06": [("elevate", 6), ("reduce", 5), ("elevate+undo", 5), ("insert", 3), ("remove", 1), ("clean", 1)],
        "C14": [("insert", 5), ("elevate", 3), ("clean", 7), ("remove", 2), ("reduce", 1)],
    }[prop]
    kinds = [k for k, w in weights for _ in range(w)]
    # unjudged history that changes the control points without touching the knot vector: the public apply() with a
    # diagonal matrix, and the ctrlpoints setter with one point moved by 1e-6 (an "almost removable" configuration)
    kinds += ["apply-scale"] + (["perturb", "perturb"] if prop == "C14" else ["perturb"])
    ops = []
    if cfg.get("huge"):
        kinds = ["insert"]
        nops = rng.randint(1, 3)
    if cfg["twin"]:
        ops.append({"op": "twin"})
    for _ in range(nops):
        k = rng.choice(kinds)
        t = rng.randrange(2) if cfg["twin"] else 0
        faulty = rng.random() < cfg["fault_rate"]
        tol = rng.choice(["default", "default", "default", "1e-3", "1e-12", "0", "none"])
        if k in ("insert", "insert+undo"):
            op = {"op": "insert", "t": t, "nodes": _nodes(rng, 4 if cfg["bigden"] else 3, cfg["shadow"], cfg["bigden"]),
                  "form": rng.choice(["list", "list", "tuple", "ndarray", "iter"])}
            if faulty and k == "insert":
                r = rng.random()
                if r < 0.35:
                    op["nodes"].append(["out", rng.choice(["lo", "hi"]), rng.choice(["1", "1/2", "1/48"])])
                elif r < 0.6:
                    op["nodes"] = [["iknot", rng.randrange(8)]] * rng.randint(2, 6)
                elif r < 0.8:
                    op["nodes"] = [["end", rng.choice(["lo", "hi"])]] * rng.randint(1, 2)
                elif r < 0.9:
                    op["nodes"] = [["end", "lo"], ["end", "hi"]]
                else:
                    op["nodes"].append(["bad", rng.choice(["str", "none"])])
            ops.append(op)
            if k == "insert+undo":
                ops.append({"op": "remove", "t": t, "undo": True, "tol": tol, "nodes": []})
        elif k == "remove":
            r = rng.random()
            if r < 0.45:
                nodes = [["removable", rng.randrange(8), rng.randint(1, 3)]]
            elif r < 0.8:
                nodes = [["nonremovable", rng.randrange(8)]]
            else:
                nodes = [["iknot", rng.randrange(8)] for _ in range(rng.randint(1, 3))]
            op = {"op": "remove", "t": t, "tol": tol, "nodes": nodes, "form": rng.choice(["list", "list", "tuple", "ndarray", "iter"]),
                  "tolform": rng.choice(["float", "float", "fraction"])}
            if faulty:
                r = rng.random()
                if r < 0.3:
                    op["nodes"] = [["mid", rng.randrange(8), rng.choice(TS)]]
                elif r < 0.55:
                    op["nodes"] = [["end", rng.choice(["lo", "hi"])]] * rng.randint(1, 2)
                elif r < 0.75:
                    op["nodes"] = [["iknot", rng.randrange(8)]] * rng.randint(3, 7)
                elif r < 0.85:
                    op["nodes"].append(["bad", rng.choice(["str", "none"])])
                elif r < 0.95:
                    op["tol"] = "neg"
                else:
                    op["nodes"] = [["out", "hi", "1"]]
            ops.append(op)
        elif k in ("elevate", "elevate+undo"):
            op = {"op": "elevate", "t": t, "times": rng.choice([1, 1, 1, 2, 2, 3]), "via": rng.choice(["method", "setter"])}
            if faulty and k == "elevate":
                op["times"] = rng.choice([0, -1, "bad:float", "bad:str", "bad:none"])
            ops.append(op)
            if k == "elevate+undo":
                ops.append({"op": "reduce", "t": t, "undo": True, "tol": tol, "times": op["times"],
                            "via": rng.choice(["method", "setter"])})
        elif k == "reduce":
            op = {"op": "reduce", "t": t, "times": rng.choice([1, 1, 1, 2, 3]), "tol": tol,
                  "via": rng.choice(["method", "method", "setter"])}
            if faulty:
                op["times"] = rng.choice([0, -1, 7, "bad:float", "bad:str", "bad:none"])
            ops.append(op)
        elif k in ("apply-scale", "perturb"):
            ops.append({"op": k, "t": t, "j": rng.randrange(16), "c": rng.choice(["2", "3", "1/2", "-1"])})
        else:
            which = rng.choice(["knot_clean", "knot_clean", "degree_clean", "clean", "clean"])
            ctol = rng.choice(["0", "0", "default", "default", "1e-12"])
            op = {"op": which, "t": t, "tol": ctol, "repeat": rng.random() < 0.5}
            if which == "knot_clean" and rng.random() < 0.4:
                op["nodes"] = [["iknot", rng.randrange(8)] for _ in range(rng.randint(1, 3))]
                op["form"] = rng.choice(["list", "tuple", "iter", "iter", "ndarray"])
                if rng.random() < 0.3:
                    op["nodes"].append(["mid", rng.randrange(8), "1/2"])
            if faulty:
                op["tol"] = rng.choice(["neg", "none", "bad:str"])
            ops.append(op)
    if mode == "float" and prop in ("C05", "C14") and not rational and rng.random() < 0.25:
        # a knot that is ALMOST removable: insert it, move one control point by 1e-6 .. 1e-3, then ask for its removal /
        # a cleaning with a tight tolerance (the accept / refuse decision sits right at the tolerance)
        ops.append({"op": "insert", "t": 0, "nodes": [["mid", rng.randrange(8), rng.choice(TS)]], "form": "list"})
        ops.append({"op": "perturb", "t": 0, "j": rng.randrange(16), "c": "2"})
        if prop == "C05":
            ops.append({"op": "remove", "t": 0, "tol": rng.choice(["0", "0", "default", "1e-12"]), "nodes": [], "reuse_last_insert": True,
                        "form": "list", "tolform": rng.choice(["float", "fraction"])})
        else:
            ops.append({"op": rng.choice(["knot_clean", "clean"]), "t": 0, "tol": rng.choice(["0", "default", "1e-12"]), "repeat": False})
    if cfg["twin"] and rng.random() < 0.8:
        # both differently refined twins are cleaned at the end: they must arrive at identical knots and control points
        ctol = rng.choice(["0", "0", "default"])
        first = rng.randrange(2)
        ops.append({"op": "clean", "t": first, "tol": ctol, "repeat": False})
        ops.append({"op": "clean", "t": 1 - first, "tol": ctol, "repeat": rng.random() < 0.3})
    return {"property": prop, "engine": "ref", "seed": seed, "tier": tier, "config": cfg, "ops": ops}


# --------------------------------------------------------------------------
# executor
# --------------------------------------------------------------------------
class RefEngine:
    name = "ref"
    gen_plan = staticmethod(gen_plan)

    def setup(self):
        self.lib = import_library()
        import numpy
        self.np = numpy
        self.Curve = self.lib.Curve

    def cleanup(self):
        pass

    # ----- values ------------------------------------------------------------
    def num(self, fr, mode):
        return float(fr) if mode == "float" else Fraction(fr)

    def build(self, spec, cfg, seam):
        mode, profile = cfg["mode"], cfg["profile"]
        L = []
        for k, m in zip(spec["knots"], spec["mults"]):
            L += [self.num(M.dec(k), mode)] * m
        pts = []
        off = M.dec(cfg["offset"]) if cfg.get("offset") else None
        for pt in spec["pts"]:
            c = [M.dec(x) for x in pt]
            if off is not None:
                c = [x + off for x in c]
            if profile == "frac":
                v = c[0]
                pts.append(float(v) if mode == "float" else (int(v) if v.denominator == 1 else v))
            elif profile == "vec":
                pts.append(self.np.array([Fraction(x) for x in c], dtype=object))
            elif profile == "fvec":
                pts.append(self.np.array([float(x) for x in c], dtype="float64"))
            elif profile == "int-ndarray":
                pts.append(self.np.array([int(x) for x in c], dtype="int64"))
            else:
                pts.append(SimPoint(c, profile[4:], seam, cfg.get("bound")))
        weights = None
        if "weights" in spec:
            weights = [self.num(M.dec(w), mode) for w in spec["weights"]]
        if cfg.get("viewpts") and profile in ("vec", "fvec") and len(pts) >= 2:
            parent = self.np.array([p.tolist() for p in reversed(pts)], dtype=pts[0].dtype)
            pts = parent[::-1]      # a reversed view: every point is a row view of the same parent, not in row order
        return self.Curve(L, pts, weights)

    def point_exact(self, pt):
        if isinstance(pt, SimPoint):
            return tuple(pt.c)
        if isinstance(pt, self.np.ndarray):
            return tuple(M.Fr(x) for x in pt.tolist())
        return M.Fr(pt)

    def alpha(self, curve):
        if curve.ctrlpoints is None:
            return None
        try:
            L = [M.Fr(k) for k in curve.knotvector]
            P = [self.point_exact(pt) for pt in curve.ctrlpoints]
            W = None if curve.weights is None else [M.Fr(w) for w in curve.weights]
        except (TypeError, ValueError, AttributeError):
            return None      # not a numeric state (only reachable after the library accepted non-numeric data)
        if len(set(len(x) if isinstance(x, tuple) else 0 for x in P)) != 1:
            return None
        if M.wellformed(L) is None or len(P) != len(L) - M.wellformed(L) - 1 or (W is not None and len(W) != len(P)):
            return None
        return (L, P, W)

    def freeze(self, curve):
        """Library-independent exact snapshot (types and values) of the three fields."""
        def item(x):
            if isinstance(x, SimPoint):
                return ("SimPoint", tuple(M.enc(c) for c in x.c))
            if isinstance(x, self.np.ndarray):
                return ("ndarray", str(x.dtype), x.shape, tuple(M.enc(M.Fr(v)) if not isinstance(v, str) else v for v in x.ravel().tolist()))
            try:
                return (type(x).__name__, M.enc(M.Fr(x)))
            except (TypeError, ValueError):
                return (type(x).__name__, repr(x))
        kv = tuple(item(k) for k in curve.knotvector)
        cp = None if curve.ctrlpoints is None else tuple(item(p) for p in curve.ctrlpoints)
        ws = None if curve.weights is None else tuple(item(w) for w in curve.weights)
        return (kv, cp, ws)

    def values_equal(self, a, b):
        """Exact equality of the denoted states (knots, points, weights), ignoring number representation."""
        sa, sb = self.alpha(a), self.alpha(b)
        return sa is not None and sa == sb

    # ----- selectors ---------------------------------------------------------
    def resolve(self, curve, sel, cfg, st):
        mode = cfg["mode"]
        raw = list(curve.knotvector)
        ks = []
        for x in raw:
            if not ks or ks[-1] != x:
                ks.append(x)
        kind = sel[0]
        if kind == "bad":
            return [BAD[sel[1]]], "bad"
        if kind == "end":
            return [ks[0] if sel[1] == "lo" else ks[-1]], "end"
        if kind == "knot":
            return [ks[sel[1] % len(ks)]], "knot"
        if kind == "iknot":
            if len(ks) > 2:
                return [ks[1 + sel[1] % (len(ks) - 2)]], "iknot"
            return self.resolve(curve, ["mid", sel[1], "1/2"], cfg, st)
        if kind == "zero":
            if M.Fr(ks[0]) < 0 < M.Fr(ks[-1]):
                for k in ks:
                    if M.Fr(k) == 0:
                        return [k], "iknot"
                z = self.num(Fraction(0), mode)
                if mode == "float" and min(abs(float(k)) for k in ks) < 1e-3:
                    return [], "skip"
                return [z], "zero"
            return self.resolve(curve, ["mid", 0, "1/2"], cfg, st)
        if kind == "mid":
            j = sel[1] % (len(ks) - 1)
            a, b = ks[j], ks[j + 1]
            t = M.dec(sel[2])
            if mode == "float":
                v = float(a) + (float(b) - float(a)) * float(t)
                if min(abs(v - float(k)) for k in ks) < 1e-3:
                    return [], "skip"
                return [v], "mid"
            return [M.Fr(a) + (M.Fr(b) - M.Fr(a)) * t], "mid"
        if kind == "out":
            d = M.dec(sel[2])
            v = M.Fr(ks[0]) - d if sel[1] == "lo" else M.Fr(ks[-1]) + d
            return [self.num(v, mode)], "out"
        if kind in ("removable", "nonremovable"):
            # model-chosen targets (polynomial curves): bias towards the interesting classes
            if st is None or st[2] is not None or len(ks) <= 2:
                return self.resolve(curve, ["iknot", sel[1]], cfg, st)
            L = st[0]
            p = M.kv_degree(L)
            _, conts = M.analysis(st)
            cands = []
            for (b, c), k in zip(conts, ks[1:-1]):
                m = M.kv_mult(L, b)
                need = M.needed_mult(p, c)
                if kind == "removable" and m - need >= 1:
                    cands.append((k, min(sel[2], m - need)))
                if kind == "nonremovable" and need >= 1:
                    cands.append((k, m - need + 1))
            if not cands:
                return self.resolve(curve, ["iknot", sel[1]], cfg, st)
            k, r = cands[sel[1] % len(cands)]
            return [k] * r, kind
        raise HarnessError("unknown selector %r" % (sel,))

    def resolve_all(self, curve, sels, cfg, st):
        """Resolve selectors; keep the explored space away from the library's knot-merging tolerances (1e-6 / 1e-9): a node is
        dropped when it would come closer than 1e-4 to a DIFFERENT knot or to a different node of the same request."""
        vals, tags = [], []
        try:
            present = [M.Fr(k) for k in curve.knotvector]
        except (TypeError, ValueError):
            present = []
        limit = Fraction(1, 10 ** 4)
        for sel in sels:
            v, tag = self.resolve(curve, sel, cfg, st)
            if tag == "skip":
                continue
            if tag not in ("bad", "out"):
                ok = True
                for x in v:
                    fx = M.Fr(x)
                    if any(fx != y and abs(fx - y) < limit for y in present):
                        ok = False
                if not ok:
                    continue
                present += [M.Fr(x) for x in v]
            vals += v
            tags.append(tag)
        return vals, tags

    # ----- run ---------------------------------------------------------------
    def run(self, plan, ctx):
        cfg = plan["config"]
        prop = cfg["prop"]
        self.seam = Seam(ctx)
        self.cfg = cfg
        self.numeric = cfg["profile"] in NUMERIC_PROFILES
        self.exact = cfg["mode"] == "exact"
        try:
            base = self.build(cfg["init"], cfg, self.seam)
        except Exception as e:  # noqa
            ctx.step = -1
            ctx.fail("valid-construction-fails", cfg["profile"], "Curve(knots, points, weights) with valid data raised %s: %s" % (type(e).__name__, e))
            return
        self.slots = [base, None]
        self.shadow = None
        if cfg.get("shadow"):
            try:
                self.shadow = self.build(cfg["init"], dict(cfg, mode="float", profile="fvec" if cfg["profile"] == "vec" else "frac"), self.seam)
            except Exception:  # noqa
                self.shadow = None
        self.last = [None, None]       # record of the last successful mutating step per slot (for undo)
        self.lossy = [False, False]    # the function was changed by an accepted lossy step (expectations dropped)
        self.last_insert_nodes = [None, None]
        self.cleaned = [False, False]  # the slot's last successful mutator was clean()
        self.drift = [False, False]    # the slot no longer denotes the twins' common function
        self.base_state = None
        self.rational_steps = 0
        ctx.step = -1
        ctx.log("init", cfg["mode"], cfg["profile"], cfg["rational"], base.degree, base.npts)
        for step, op in enumerate(plan["ops"]):
            ctx.step = step
            kind = op["op"]
            ctx.count("op:" + kind)
            if kind == "twin":
                self.op_twin(ctx)
                continue
            t = op.get("t", 0)
            curve = self.slots[t]
            if curve is None:
                ctx.log(kind, "skip-empty")
                continue
            judged = OWNER[kind] == prop
            if self.shadow is not None and t == 0:
                self.mirror_on_shadow(ctx, op, curve)
            if self.alpha(curve) is None:
                ctx.count("slot_retired_inconsistent")
                self.slots[t] = None
                continue
            if kind in ("apply-scale", "perturb"):
                res = self.op_history(ctx, op, t, curve)
            else:
                res = getattr(self, "op_" + ("clean" if kind in ("knot_clean", "degree_clean", "clean") else kind))(ctx, op, t, curve, judged)
            st = self.alpha(curve)
            if st is None:
                # consistency of the three fields is C15's subject; here the slot is simply retired
                ctx.count("slot_retired_inconsistent")
                self.slots[t] = None
                continue
            if res.startswith("ok") or res == "accepted-invalid":
                self.cleaned[t] = (kind == "clean" and res == "ok")
            if self.base_state is not None and self.exact and not self.drift[t] and res != "skip" and not res.startswith("raise"):
                # does this slot still denote the function both twins started from?  (expectations that span
                # steps are asserted only while this holds; otherwise they are dropped and counted)
                if st[2] is not None or not M.same_function(st, self.base_state):
                    self.drift[t] = True
                    ctx.count("expectation_dropped:twin-drift")
            p = M.kv_degree(st[0])
            ctx.state((p, tuple(m for _, m in M.kv_mults(st[0])), cfg["mode"], st[2] is not None, cfg["profile"]))
            ctx.log(kind, res, p, len(st[1]))

    def mirror_on_shadow(self, ctx, op, curve):
        """Perform the step on the float twin first (unjudged history).  The twin is dropped as soon as its knot
        values stop matching the exact curve's."""
        sh = self.shadow
        kind = op["op"]
        try:
            if [float(k) for k in curve.knotvector] != [float(k) for k in sh.knotvector]:
                self.shadow = None
                return
            if kind == "insert":
                vals, tags = self.resolve_all(curve, op["nodes"], self.cfg, self.alpha(curve))
                if "bad" in tags or not vals:
                    return
                sh.knot_insert([float(v) for v in vals])
            elif kind == "elevate":
                t = self.times_value(op["times"])
                if isinstance(t, int) and t >= 1:
                    sh.degree_increase(t)
            elif kind == "reduce":
                t = self.times_value(op["times"])
                if isinstance(t, int) and t >= 1 and not op.get("undo"):
                    sh.degree_decrease(t, None)
                elif op.get("undo") and self.last[0] is not None and self.last[0]["kind"] == "elevate":
                    sh.degree_decrease(self.last[0]["times"])
            elif kind == "remove":
                if op.get("undo"):
                    if self.last[0] is not None and self.last[0]["kind"] == "insert":
                        sh.knot_remove([float(v) for v in self.last[0]["nodes"]])
                else:
                    vals, tags = self.resolve_all(curve, op["nodes"], self.cfg, self.alpha(curve))
                    if "bad" in tags or not vals or op["tol"] == "neg":
                        return
                    tol = self.tol_value(op["tol"])
                    try:
                        if op["tol"] == "default":
                            sh.knot_remove([float(v) for v in vals])
                        else:
                            sh.knot_remove([float(v) for v in vals], tol)
                    except ValueError:
                        pass
            elif kind in ("knot_clean", "degree_clean", "clean"):
                if op["tol"] not in ("default", "0", "1e-12"):
                    return
                tol = self.tol_value(op["tol"])
                if kind == "knot_clean":
                    nodes = None
                    if "nodes" in op:
                        vals, _ = self.resolve_all(curve, op["nodes"], self.cfg, self.alpha(curve))
                        nodes = [float(v) for v in vals]
                    sh.knot_clean(nodes) if op["tol"] == "default" else sh.knot_clean(nodes, tol)
                elif kind == "degree_clean":
                    sh.degree_clean() if op["tol"] == "default" else sh.degree_clean(tol)
                else:
                    sh.clean() if op["tol"] == "default" else sh.clean(tol)
            else:
                self.shadow = None
                return
            ctx.count("shadow_steps")
        except Exception:  # noqa
            self.shadow = None

    def op_history(self, ctx, op, t, curve):
        """Unjudged history: the curve's function changes, its knot vector does not."""
        if not self.numeric or (self.cfg["mode"] != "exact" and op["op"] != "perturb"):
            return "skip"
        n = curve.npts
        try:
            if op["op"] == "apply-scale":
                c = M.dec(op["c"])
                matrix = [[(c if i == j else 0) for j in range(n)] for i in range(n)]
                if curve.weights is not None:
                    return "skip"
                curve.apply(curve.knotvector, matrix)
            else:
                pts = list(curve.ctrlpoints)
                j = op["j"] % n
                eps = Fraction(1, 10 ** 6)
                if self.cfg["mode"] != "exact":
                    eps = [1e-6, 2e-4, 1e-3][op["j"] % 3]     # float curves: a kink just above / below the default tolerance
                    pts[j] = pts[j] + eps if not isinstance(pts[j], self.np.ndarray) else pts[j] + self.np.array([eps] + [0.0] * (len(pts[j]) - 1))
                else:
                    pts[j] = pts[j] + eps if not isinstance(pts[j], self.np.ndarray) else pts[j] + self.np.array([eps] + [0] * (len(pts[j]) - 1), dtype=object)
                curve.ctrlpoints = pts
        except Exception:  # noqa
            return "raise:history"
        self.last[t] = None
        self.lossy[t] = True
        self.shadow = None
        return "ok"

    def op_twin(self, ctx):
        """Slot 1 := a differently refined representation of the same function (history for C14)."""
        import copy
        c = copy.deepcopy(self.slots[0])
        self.slots[1] = c
        st = self.alpha(c)
        if st is not None and st[2] is None and self.numeric:
            self.base_state = st
        ctx.log("twin")

    # ----- generic call wrapper ---------------------------------------------
    def call(self, ctx, curve, fn, label, judged=True):
        """Run one mutator with the value seam armed.  Returns (exception or None, env_fault_fired, pre_freeze)."""
        pre = self.freeze(curve)
        self.seam.arm()
        exc = None
        try:
            fn()
        except Exception as e:  # noqa
            exc = e
        finally:
            fired = self.seam.disarm()
        if exc is not None and judged:
            ctx.oracle("refusal-atomic")
            if self.freeze(curve) != pre:
                ctx.fail("refusal-not-atomic", label, "%s raised %s but the curve changed" % (label, type(exc).__name__))
        return exc, fired, pre

    def tol_value(self, name):
        if name == "neg":
            return -1e-3
        if isinstance(name, str) and name.startswith("bad:"):
            return BAD[name[4:]]
        return TOLS[name]

    def fn_equal(self, ctx, s0, s1, label, klass):
        """The curve is the same function of u (exactly in exact mode, 1e-7 relative in float mode)."""
        ctx.oracle("function-preserved")
        if self.exact:
            if not M.same_function(s0, s1):
                ctx.fail("function-changed", klass, "%s changed the curve as a function of u" % label)
                return False
            return True
        scale = max([1.0] + [abs(float(x)) for pt in s0[1] for x in (pt if isinstance(pt, tuple) else (pt,))])
        d = float(M.max_pointwise_diff(s0, s1))
        if d > 1e-7 * scale:
            ctx.fail("function-changed", klass, "%s changed the curve by %.3e (float mode, scale %.1f)" % (label, d, scale))
            return False
        return True

    def as_form(self, vals, form, bad):
        """The same nodes as list / tuple / 1-D numpy array (object dtype keeps rationals exact) / one-shot iterator."""
        if bad or form == "list":
            return list(vals)
        if form == "tuple":
            return tuple(vals)
        if form == "ndarray":
            allf = all(isinstance(v, float) for v in vals)
            return self.np.array(list(vals), dtype="float64" if allf else object)
        if form == "iter":
            return iter(list(vals))
        return list(vals)

    def klass(self, st):
        return "rational" if st[2] is not None else "polynomial"

    # ----- insert (C04) ------------------------------------------------------
    def op_insert(self, ctx, op, t, curve, judged):
        cfg = self.cfg
        s0 = self.alpha(curve)
        vals, tags = self.resolve_all(curve, op["nodes"], cfg, s0)
        if not vals:
            return "skip"
        L = s0[0]
        must = None
        if "bad" in tags:
            must = "any"
        else:
            ex = [M.Fr(v) for v in vals]
            if any(x < L[0] or x > L[-1] for x in ex):
                must = "ValueError"
                ctx.probe("insert-outside")
            elif any(x in (L[0], L[-1]) for x in ex) or M.wellformed(sorted(L + ex)) is None:
                must = "ValueError"
                ctx.probe("insert-excess-multiplicity")
            else:
                if any(x == 0 for x in ex):
                    ctx.probe("insert-at-value-zero")
                if any(M.kv_mult(L, x) > 0 for x in ex):
                    ctx.probe("insert-at-existing-knot")
        arg = self.as_form(vals, op.get("form", "list"), "bad" in tags)
        exc, fired, pre = self.call(ctx, curve, lambda: curve.knot_insert(arg), "knot_insert", judged)
        if must is not None:
            ctx.fault("invalid-request:insert")
        if exc is not None:
            if judged and must == "ValueError" and not isinstance(exc, ValueError) and not fired:
                ctx.fail("wrong-exception", "insert", "an insertion that must be refused with ValueError raised %s" % type(exc).__name__)
            if judged and must is None and not fired:
                ctx.oracle("valid-request-succeeds")
                ctx.fail("valid-insert-refused", self.klass(s0) + "-" + cfg["profile"],
                         "knot_insert(%s) raised %s: %s" % ([M.enc(M.Fr(v)) for v in vals], type(exc).__name__, exc))
            return "raise:env-fault" if fired else "raise:" + type(exc).__name__
        if must == "any":
            return "accepted-unspecified"      # non-numeric nodes are not covered by the statement
        if must is not None:
            if judged:
                ctx.oracle("rejects-invalid")
                ctx.fail("invalid-accepted", "insert", "knot_insert(%s) was accepted although it must be refused"
                         % ([M.enc(M.Fr(v)) if not isinstance(v, (str, type(None), list)) else repr(v) for v in vals],))
            return "accepted-invalid"
        ctx.transitions += 1
        s1 = self.alpha(curve)
        if s1 is None:
            return "ok-inconsistent"
        ok = True
        if judged:
            ctx.oracle("knots-are-multiset-union")
            if s1[0] != sorted(L + [M.Fr(v) for v in vals]):
                ctx.fail("wrong-knots", "insert", "after knot_insert the knot vector is %s, expected the sorted union %s"
                         % ([M.enc(x) for x in s1[0]], [M.enc(x) for x in sorted(L + [M.Fr(v) for v in vals])]))
                ok = False
            ok = self.fn_equal(ctx, s0, s1, "knot_insert(%s)" % [M.enc(M.Fr(v)) for v in vals], self.klass(s0)) and ok
        self.last[t] = {"kind": "insert", "nodes": list(vals), "pre_state": s0, "post_freeze": self.freeze(curve)}
        self.last_insert_nodes[t] = list(vals)
        return "ok"

    # ----- remove (C05) ------------------------------------------------------
    def op_remove(self, ctx, op, t, curve, judged):
        cfg = self.cfg
        s0 = self.alpha(curve)
        rat = s0[2] is not None
        undo = None
        if op.get("undo"):
            rec = self.last[t]
            if rec is None or rec["kind"] != "insert" or rec["post_freeze"] != self.freeze(curve):
                ctx.count("undo_not_applicable")
                return "skip"
            undo = rec
            vals, tags = list(rec["nodes"]), ["undo"]
            ctx.probe("undo-of-insertion")
        elif op.get("reuse_last_insert"):
            vals = [v for v in (self.last_insert_nodes[t] or []) if M.kv_mult(s0[0], M.Fr(v)) > 0]
            tags = ["iknot"] if vals else []
            ctx.probe("removal-of-almost-removable-knot")
        else:
            vals, tags = self.resolve_all(curve, op["nodes"], cfg, s0)
        if not vals:
            return "skip"
        if len(s0[1]) > 30:
            ctx.count("removal_skipped_by_size_rule")
            return "skip"
        if rat:
            # exact least squares over rational bases is very expensive: size rule (not a timer)
            p = M.kv_degree(s0[0])
            if p > 2 or len(s0[1]) > 6 or self.rational_steps >= 2:
                ctx.count("rational_removal_skipped_by_size_rule")
                return "skip"
            self.rational_steps += 1
        L = s0[0]
        p = M.kv_degree(L)
        tolname = op["tol"]
        tol = self.tol_value(tolname)
        # ---- classification by the model ----
        cls = None
        if "bad" in tags:
            cls = "bad"
        elif tolname == "neg":
            cls = "badtol"
        else:
            ex = [M.Fr(v) for v in vals]
            rest = list(L)
            absent = False
            for x in ex:
                if x in rest:
                    rest.remove(x)
                else:
                    absent = True
            if absent:
                cls = "absent"
                ctx.probe("remove-absent")
            elif M.wellformed(rest) is None:
                cls = "illformed"
                ctx.probe("remove-end-or-illformed")
            elif any(x in (L[0], L[-1]) for x in ex):
                cls = "ends-lower-degree"
            elif undo is not None:
                cls = "removable"
            elif not rat and self.numeric and self.exact:
                cls = "removable" if M.removable(s0, ex) else "lossy"
            else:
                cls = "unknown"
        if cls == "removable":
            ctx.probe("remove-exactly-removable")
            if any(M.kv_mult(L, M.Fr(v)) == p + 1 for v in vals):
                ctx.probe("removal-at-multiplicity-p+1")
        if cls == "lossy":
            ctx.probe("remove-not-removable")

        rarg = self.as_form(vals, op.get("form", "list"), "bad" in tags)
        if tolname not in ("default", "none", "neg") and op.get("tolform") == "fraction":
            tol = Fraction(tol).limit_denominator(10 ** 15) if tol else Fraction(0)

        def fn():
            if tolname == "default":
                curve.knot_remove(rarg)
            else:
                curve.knot_remove(rarg, tol)
        exc, fired, pre = self.call(ctx, curve, fn, "knot_remove", judged)
        if cls in ("bad", "badtol", "absent", "illformed"):
            ctx.fault("invalid-request:remove-" + cls)
        if cls == "badtol":
            # a negative tolerance is not covered by the statement: nothing but refusal atomicity (in call()) is judged
            if exc is None:
                self.lossy[t] = True
                self.last[t] = None
                return "ok"
            return "raise:" + type(exc).__name__
        klass = self.klass(s0)
        if exc is not None:
            if judged and not fired:
                if cls in ("absent", "illformed", "lossy", "removable", "unknown") and not isinstance(exc, ValueError) \
                        and self.numeric:
                    ctx.fail("wrong-exception", "remove-" + klass, "knot_remove refused with %s instead of ValueError: %s" % (type(exc).__name__, exc))
                if self.numeric and cls == "removable" and (self.exact or tolname in ("default", "1e-3", "none")):
                    ctx.oracle("removable-succeeds")
                    ctx.fail("removable-refused", klass + ("-undo" if undo else ""),
                             "knot_remove(%s, tol=%s) refused (%s: %s) although the knots are exactly removable%s"
                             % ([M.enc(M.Fr(v)) for v in vals], tolname, type(exc).__name__, exc,
                                " (it undoes the previous knot_insert)" if undo else ""))
                if self.numeric and cls == "lossy" and tolname == "none":
                    ctx.oracle("none-always-succeeds")
                    ctx.fail("none-refused", klass, "knot_remove(..., tolerance=None) raised %s: %s" % (type(exc).__name__, exc))
            return "raise:env-fault" if fired else "raise:" + type(exc).__name__
        if cls == "bad":
            self.lossy[t] = True
            self.last[t] = None
            return "accepted-unspecified"
        if cls in ("absent", "illformed"):
            if judged:
                ctx.oracle("rejects-invalid")
                ctx.fail("invalid-accepted", "remove-" + cls, "knot_remove(%r, %r) was accepted although it must be refused" % (
                    [M.enc(M.Fr(v)) if not isinstance(v, (str, type(None), list)) else repr(v) for v in vals], tolname))
            return "accepted-invalid"
        ctx.transitions += 1
        s1 = self.alpha(curve)
        if s1 is None:
            return "ok-inconsistent"
        self.last[t] = None
        if not judged or not self.numeric or cls == "ends-lower-degree":
            if cls != "removable":
                self.lossy[t] = True
            return "ok"
        ctx.oracle("knots-are-multiset-difference")
        rest = list(L)
        for x in (M.Fr(v) for v in vals):
            rest.remove(x)
        if s1[0] != rest:
            ctx.fail("wrong-knots", "remove", "after knot_remove the knot vector is %s, expected %s" % (
                [M.enc(x) for x in s1[0]], [M.enc(x) for x in rest]))
            return "ok"
        if cls == "removable":
            if self.fn_equal(ctx, s0, s1, "exact knot_remove(%s, tol=%s)" % ([M.enc(M.Fr(v)) for v in vals], tolname),
                             klass + ("-undo" if undo else "")):
                if undo is not None and self.exact:
                    ctx.oracle("undo-restores-state")
                    if s1 != undo["pre_state"]:
                        ctx.fail("undo-not-identical", klass, "insert followed by remove did not restore the control points / weights exactly")
            else:
                self.lossy[t] = True
            return "ok"
        # not exactly removable (or unknown): success is allowed only within the tolerance
        self.lossy[t] = True
        if tolname == "none":
            if p >= 1:
                ctx.oracle("none-interpolates-remaining-knots")
                bad = None
                for k in M.kv_knots(s1[0]):
                    a, b = M.curve_eval(s0, k), M.curve_eval(s1, k)
                    if not self.close(a, b):
                        bad = k
                        break
                if bad is not None:
                    ctx.fail("none-not-interpolating", klass, "after knot_remove(..., None) the curve no longer passes through the old curve at knot %s" % M.enc(bad))
            return "ok"
        self.check_bound(ctx, s0, s1, tol if tolname != "default" else 1e-9, "knot_remove", klass)
        return "ok"

    def close(self, a, b):
        a = a if isinstance(a, tuple) else (a,)
        b = b if isinstance(b, tuple) else (b,)
        if self.exact:
            return a == b
        return all(abs(float(x - y)) <= 1e-7 * max(1.0, abs(float(x))) for x, y in zip(a, b))

    def check_bound(self, ctx, s0, s1, tol, label, klass):
        """integral of squared deviation <= 2*tol*max(1, umax-umin) per coordinate."""
        ctx.oracle("deviation-within-tolerance")
        width = s0[0][-1] - s0[0][0]
        bound = 2 * Fraction(tol) * max(Fraction(1), width)
        if s0[2] is None and s1[2] is None:
            devs = M.l2_deviation(s0, s1)
            worst = max(devs)
            slack = bound * (Fraction(1) if self.exact else Fraction(1000001, 1000000)) + (0 if self.exact else Fraction(1, 10 ** 12))
            if worst > slack:
                ctx.fail("silently-lossy", klass, "%s succeeded with integral of squared deviation %.3e > allowed %.3e (tolerance %r)"
                         % (label, float(worst), float(bound), tol))
        else:
            # rational: composite midpoint-Gauss estimate on the exact model values, 5 % slack
            est = self.rational_deviation_estimate(s0, s1)
            if est > float(bound) * 1.05 + 1e-12:
                ctx.fail("silently-lossy", klass, "%s succeeded with estimated integral of squared deviation %.3e > allowed %.3e (tolerance %r)"
                         % (label, est, float(bound), tol))

    def rational_deviation_estimate(self, s0, s1):
        gx = [Fraction(1, 2) - Fraction(3872983, 10000000), Fraction(1, 2), Fraction(1, 2) + Fraction(3872983, 10000000)]
        gw = [5 / 18, 8 / 18, 5 / 18]
        allb = sorted(set(s0[0]) | set(s1[0]))
        dim = len(s0[1][0]) if isinstance(s0[1][0], tuple) else 1
        tot = [0.0] * dim
        for lo, hi in zip(allb, allb[1:]):
            for sub in range(2):
                a = lo + (hi - lo) * Fraction(sub, 2)
                b = lo + (hi - lo) * Fraction(sub + 1, 2)
                for x, w in zip(gx, gw):
                    u = a + (b - a) * x
                    fa, fb = M.curve_eval(s0, u), M.curve_eval(s1, u)
                    fa = fa if isinstance(fa, tuple) else (fa,)
                    fb = fb if isinstance(fb, tuple) else (fb,)
                    for c in range(dim):
                        tot[c] += w * float(b - a) * float(fa[c] - fb[c]) ** 2
        return max(tot)

    # ----- elevate / reduce (C06) -------------------------------------------
    def times_value(self, t):
        if isinstance(t, str) and t.startswith("bad:"):
            return {"float": 2.0, "str": "1", "none": None}[t[4:]]
        return t

    def op_elevate(self, ctx, op, t, curve, judged):
        s0 = self.alpha(curve)
        L = s0[0]
        p = M.kv_degree(L)
        times = self.times_value(op["times"])
        valid = isinstance(times, int) and times >= 1
        if valid and len(L) + times * len(M.kv_knots(L)) - (p + times) - 1 > (26 if self.cfg.get("large") else 16):
            ctx.count("elevation_skipped_by_size_rule")
            return "skip"
        if op["via"] == "setter" and valid:
            def fn():
                curve.degree = p + times
        else:
            def fn():
                curve.degree_increase(times)
        exc, fired, pre = self.call(ctx, curve, fn, "degree_increase", judged)
        klass = self.klass(s0)
        if not valid:
            # t = 0, negative or non-integer is outside the statement's "all t >= 1": only refusal atomicity is judged
            ctx.fault("invalid-request:elevate")
            if exc is None:
                self.last[t] = None
                self.lossy[t] = True
                return "accepted-unspecified"
            return "raise:env-fault" if fired else "raise:" + type(exc).__name__
        if exc is not None:
            if judged and not fired:
                ctx.oracle("valid-request-succeeds")
                ctx.fail("valid-elevation-refused", klass + "-" + self.cfg["profile"],
                         "degree_increase(%d) raised %s: %s" % (times, type(exc).__name__, exc))
            return "raise:env-fault" if fired else "raise:" + type(exc).__name__
        ctx.transitions += 1
        s1 = self.alpha(curve)
        if s1 is None:
            return "ok-inconsistent"
        if judged:
            ctx.oracle("elevated-knots")
            exp = []
            for k, m in M.kv_mults(L):
                exp += [k] * (m + times)
            if s1[0] != exp:
                ctx.fail("wrong-knots", "elevate", "after degree_increase(%d) the knot vector is %s, expected %s"
                         % (times, [M.enc(x) for x in s1[0]], [M.enc(x) for x in exp]))
            else:
                if any(m > 1 for _, m in M.kv_mults(L)[1:-1]) and len(set(m for _, m in M.kv_mults(L)[1:-1])) > 1:
                    ctx.probe("elevate-mixed-multiplicities")
                if any(k == 0 for k, _ in M.kv_mults(L)[1:-1]):
                    ctx.probe("elevate-with-interior-knot-zero")
                self.fn_equal(ctx, s0, s1, "degree_increase(%d)" % times, klass)
        self.last[t] = {"kind": "elevate", "times": times, "pre_state": s0, "post_freeze": self.freeze(curve)}
        return "ok"

    def op_reduce(self, ctx, op, t, curve, judged):
        s0 = self.alpha(curve)
        rat = s0[2] is not None
        L = s0[0]
        p = M.kv_degree(L)
        undo = None
        times = self.times_value(op["times"])
        if op.get("undo"):
            rec = self.last[t]
            if rec is None or rec["kind"] != "elevate" or rec["post_freeze"] != self.freeze(curve):
                ctx.count("undo_not_applicable")
                return "skip"
            undo = rec
            times = rec["times"]
            ctx.probe("undo-of-elevation")
        valid = isinstance(times, int) and times >= 1
        if len(s0[1]) > 30:
            ctx.count("reduction_skipped_by_size_rule")
            return "skip"
        if rat and valid:
            if p > 3 or len(s0[1]) > 7 or self.rational_steps >= 2:
                ctx.count("rational_reduction_skipped_by_size_rule")
                return "skip"
            self.rational_steps += 1
        tolname = op["tol"]
        tol = self.tol_value(tolname)
        setter = op["via"] == "setter" and valid and times <= p and tolname == "default"
        if setter:
            def fn():
                curve.degree = p - times
        elif tolname == "default":
            def fn():
                curve.degree_decrease(times)
        else:
            def fn():
                curve.degree_decrease(times, tol)
        # classification
        if not valid:
            cls = "bad"
        elif tolname == "neg":
            cls = "badtol"
        else:
            expressible = times <= p and all(m >= times for _, m in M.kv_mults(L)[1:-1])
            if times > p:
                cls = "inexpressible"            # there is no degree below 0: must be refused
                ctx.probe("reduce-inexpressible")
            elif not expressible:
                cls = "unspecified"              # an interior knot has fewer than t copies: the target vector is not defined
                ctx.probe("reduce-below-knot-multiplicity")
            elif undo is not None:
                cls = "reducible"
            elif not rat and self.numeric and self.exact:
                cls = "reducible" if M.reducible(s0, times) else "lossy"
            else:
                cls = "unknown"
        exc, fired, pre = self.call(ctx, curve, fn, "degree_decrease", judged)
        klass = self.klass(s0)
        if cls in ("bad", "badtol", "inexpressible", "unspecified"):
            ctx.fault("invalid-request:reduce-" + cls)
        if cls in ("badtol", "bad", "unspecified"):
            # negative tolerance: outside the statement, only refusal atomicity is judged
            if exc is None:
                self.lossy[t] = True
                self.last[t] = None
                return "ok"
            return "raise:" + type(exc).__name__
        if exc is not None:
            if judged and not fired and self.numeric:
                if cls in ("inexpressible", "lossy", "reducible", "unknown") and not isinstance(exc, ValueError):
                    ctx.fail("wrong-exception", "reduce-" + klass, "degree_decrease(%r, %s) raised %s instead of ValueError: %s"
                             % (times, tolname, type(exc).__name__, exc))
                if cls == "reducible" and (self.exact or tolname in ("default", "1e-3", "none")):
                    ctx.oracle("reducible-succeeds")
                    ctx.fail("reducible-refused", klass + ("-undo" if undo else ""),
                             "degree_decrease(%d, tol=%s) refused (%s) although the curve is representable at the lower degree%s"
                             % (times, tolname, exc, " (it undoes the previous degree_increase)" if undo else ""))
                if cls == "lossy" and tolname == "none":
                    ctx.oracle("none-always-succeeds")
                    ctx.fail("none-refused", klass, "degree_decrease(%d, None) raised %s: %s" % (times, type(exc).__name__, exc))
            return "raise:env-fault" if fired else "raise:" + type(exc).__name__
        if cls == "inexpressible":
            if judged:
                ctx.fail("invalid-accepted", "reduce-" + cls, "degree_decrease(%r, %r) was accepted although it must be refused" % (times, tolname))
            return "accepted-invalid"
        ctx.transitions += 1
        s1 = self.alpha(curve)
        if s1 is None:
            return "ok-inconsistent"
        self.last[t] = None
        if not judged or not self.numeric:
            if cls != "reducible":
                self.lossy[t] = True
            return "ok"
        ctx.oracle("reduced-knots")
        exp = []
        for k, m in M.kv_mults(L):
            exp += [k] * (m - times)
        if s1[0] != exp:
            ctx.fail("wrong-knots", "reduce", "after degree_decrease(%d) the knot vector is %s, expected %s"
                     % (times, [M.enc(x) for x in s1[0]], [M.enc(x) for x in exp]))
            return "ok"
        if cls == "reducible":
            if self.fn_equal(ctx, s0, s1, "exact degree_decrease(%d, tol=%s)" % (times, tolname), klass + ("-undo" if undo else "")):
                if undo is not None and self.exact:
                    ctx.oracle("undo-restores-state")
                    if s1 != undo["pre_state"]:
                        ctx.fail("undo-not-identical", klass, "degree_increase followed by degree_decrease did not restore the control points / weights exactly")
            else:
                self.lossy[t] = True
            return "ok"
        self.lossy[t] = True
        if tolname == "none":
            if p - times >= 1:
                ctx.oracle("none-interpolates-remaining-knots")
                for k in M.kv_knots(s1[0]):
                    if not self.close(M.curve_eval(s0, k), M.curve_eval(s1, k)):
                        ctx.fail("none-not-interpolating", klass, "after degree_decrease(%d, None) the curve no longer passes through the old curve at knot %s" % (times, M.enc(k)))
                        break
            return "ok"
        self.check_bound(ctx, s0, s1, tol if tolname != "default" else 1e-9, "degree_decrease", klass)
        return "ok"

    # ----- cleaning (C14) ----------------------------------------------------
    def op_clean(self, ctx, op, t, curve, judged):
        cfg = self.cfg
        which = op["op"]
        s0 = self.alpha(curve)
        rat = s0[2] is not None
        p = M.kv_degree(s0[0])
        rec0 = self.last[t]
        self.last_before_clean = rec0 if (rec0 is not None and rec0.get("post_freeze") == self.freeze(curve)) else None
        if len(s0[1]) > 30 or (rat and (p > 2 or len(s0[1]) > 5 or self.rational_steps >= 2)):
            ctx.count("rational_clean_skipped_by_size_rule")
            return "skip"
        if rat:
            self.rational_steps += 1
        tolname = op["tol"]
        tol = self.tol_value(tolname)
        badtol = tolname in ("neg", "none") or (isinstance(tolname, str) and tolname.startswith("bad:"))
        nodes = None
        if "nodes" in op and which == "knot_clean":
            nodes, _ = self.resolve_all(curve, op["nodes"], cfg, s0)

        def fn():
            if which == "knot_clean":
                arg = None if nodes is None else self.as_form(nodes, op.get("form", "list"), False)
                if tolname == "default":
                    curve.knot_clean(arg)
                else:
                    curve.knot_clean(arg, tol)
            elif which == "degree_clean":
                curve.degree_clean() if tolname == "default" else curve.degree_clean(tol)
            else:
                curve.clean() if tolname == "default" else curve.clean(tol)
        # environment faults are disarmed while a composite cleaning operation runs (DESIGN section 2)
        pre = self.freeze(curve)
        exc = None
        try:
            fn()
        except Exception as e:  # noqa
            exc = e
        klass = self.klass(s0)
        if badtol:
            # invalid tolerances are history ("refused requests between which cleaning must still work"); the
            # statement does not say they must be refused, so only the atomicity of a refusal is judged
            ctx.fault("invalid-request:clean-tolerance")
            if exc is None:
                if self.alpha(curve) != s0:
                    self.lossy[t] = True
                    self.last[t] = None
                return "ok-unspecified"
            if judged:
                ctx.oracle("refusal-atomic")
                if self.freeze(curve) != pre:
                    ctx.fail("refusal-not-atomic", which, "%s raised %s for an invalid tolerance but the curve changed" % (which, type(exc).__name__))
            return "raise:" + type(exc).__name__
        if exc is not None:
            if judged and self.numeric:
                ctx.fail("clean-raises", klass, "%s(tol=%s) raised %s: %s" % (which, tolname, type(exc).__name__, exc))
            return "raise:" + type(exc).__name__
        s1 = self.alpha(curve)
        if s1 is None:
            return "ok-inconsistent"
        changed = s1 != s0
        if changed:
            ctx.transitions += 1
            self.last[t] = None
        if not judged or not self.numeric:
            if changed and not (self.exact and M.same_function(s0, s1)):
                self.lossy[t] = True
            return "ok"
        # ---- function preservation ----
        preserved = True
        tolnum = 1e-9 if tolname == "default" else tol
        if self.exact:
            ctx.oracle("function-preserved")
            if not M.same_function(s0, s1):
                preserved = False
                if tolnum == 0:
                    ctx.fail("clean-changed-function", klass, "%s(tolerance=0) changed the curve as a function" % which)
                elif not rat:
                    # default / 1e-12: an accepted lossy removal may change the curve, each step within its tolerance
                    nsteps = max(1, (len(s0[0]) - len(s1[0])))
                    devs = M.l2_deviation(s0, s1)
                    width = s0[0][-1] - s0[0][0]
                    bound = 2 * Fraction(tolnum) * max(Fraction(1), width) * nsteps * nsteps
                    if max(devs) > bound:
                        ctx.fail("clean-changed-function", klass, "%s(tol=%s) changed the curve by %.3e, more than %d accepted steps allow (%.3e)"
                                 % (which, tolname, float(max(devs)), nsteps, float(bound)))
                else:
                    est = self.rational_deviation_estimate(s0, s1)
                    nsteps = max(1, (len(s0[0]) - len(s1[0])))
                    width = float(s0[0][-1] - s0[0][0])
                    if est > 2 * tolnum * max(1.0, width) * nsteps * nsteps * 1.05 + 1e-12:
                        ctx.fail("clean-changed-function", klass, "%s(tol=%s) changed the rational curve by about %.3e" % (which, tolname, est))
        elif rat:
            preserved = self.fn_equal(ctx, s0, s1, which, klass)
        else:
            # float data, polynomial: an accepted removal may change the curve, each accepted step within its tolerance
            # (exact integral of the squared deviation of the float-valued states, small slack for rounding)
            ctx.oracle("function-preserved")
            nsteps = max(1, (len(s0[0]) - len(s1[0])))
            devs = M.l2_deviation(s0, s1)
            width = s0[0][-1] - s0[0][0]
            scale = max([1.0] + [abs(float(x)) for pt in s0[1] for x in (pt if isinstance(pt, tuple) else (pt,))])
            bound = 2 * Fraction(tolnum) * max(Fraction(1), width) * nsteps * nsteps * Fraction(1000001, 1000000) + Fraction(scale * scale) * Fraction(1, 10 ** 12)
            preserved = max(devs) <= Fraction(scale * scale) * Fraction(1, 10 ** 14)
            if max(devs) > bound:
                ctx.fail("clean-changed-function", klass, "%s(tol=%s) changed the float curve by %.3e (integral of squared deviation), more than %d accepted steps allow (%.3e)"
                         % (which, tolname, float(max(devs)), nsteps, float(bound)))
        if not preserved:
            self.lossy[t] = True
        # ---- minimality (polynomial curves, exact arithmetic, function exactly preserved) ----
        if self.exact and not rat and preserved:
            d, conts = M.analysis(s0)
            if which == "clean":
                ctx.oracle("minimal-representation")
                md, mL = M.minimal_form(s0)
                if M.kv_degree(s1[0]) != md or s1[0] != mL:
                    ctx.fail("not-minimal", "clean", "after clean() degree/knots are %d/%s, the minimal representation is %d/%s"
                             % (M.kv_degree(s1[0]), [M.enc(x) for x in s1[0]], md, [M.enc(x) for x in mL]))
                else:
                    ctx.probe("clean-reached-minimal-form")
                    if len(s1[0]) < len(s0[0]):
                        ctx.probe("clean-removed-something")
            elif which == "knot_clean":
                ctx.oracle("knot-clean-multiplicities")
                want = dict((b, M.needed_mult(p, c)) for b, c in conts)
                listed = None if nodes is None else set(M.Fr(v) for v in nodes)
                for b, m in M.kv_mults(s0[0])[1:-1]:
                    target = want[b] if (listed is None or b in listed) else m
                    got = M.kv_mult(s1[0], b)
                    if got != target:
                        ctx.fail("not-minimal", "knot_clean", "after knot_clean(%s) knot %s has multiplicity %d, expected %d (degree %d, continuity %s)"
                                 % ("all" if listed is None else sorted(M.enc(x) for x in listed), M.enc(b), got, target, p,
                                    "same polynomial" if dict(conts)[b] >= M.INF else dict(conts)[b]))
                        break
            else:
                ctx.oracle("degree-clean-degree")
                if M.kv_degree(s1[0]) != d:
                    ctx.fail("not-minimal", "degree_clean", "after degree_clean() the degree is %d, the curve's true degree is %d"
                             % (M.kv_degree(s1[0]), d))
        # ---- what the previous step added must be cleaned away again (also in float arithmetic: the removal error of
        #      knots / degrees that the library itself has just added is ~1e-30, far below the default tolerance) ----
        rec = self.last_before_clean
        if rec is not None and tolname == "default" and not rat and preserved:
            ctx.oracle("cleans-what-was-just-added")
            if rec["kind"] == "elevate" and which in ("degree_clean", "clean"):
                p_before = M.kv_degree(rec["pre_state"][0])
                if M.kv_degree(s1[0]) > p_before:
                    ctx.fail("not-minimal", which + "-after-elevation", "degree_increase(%d) followed by %s() leaves degree %d (it was %d before the elevation)"
                             % (rec["times"], which, M.kv_degree(s1[0]), p_before))
            if rec["kind"] == "insert" and which in ("knot_clean", "clean") and nodes is None:
                L_before = rec["pre_state"][0]
                for x in set(M.Fr(v) for v in rec["nodes"]):
                    if M.kv_mult(s1[0], x) > M.kv_mult(L_before, x) and M.kv_degree(s1[0]) == M.kv_degree(L_before):
                        ctx.fail("not-minimal", which + "-after-insertion", "knot_insert followed by %s() leaves knot %s with multiplicity %d (it was %d before the insertion)"
                                 % (which, M.enc(x), M.kv_mult(s1[0], x), M.kv_mult(L_before, x)))
                        break
        # ---- idempotence ----
        if op.get("repeat") and (self.exact or True):
            f1 = self.freeze(curve)
            try:
                fn()
            except Exception as e:  # noqa
                if judged:
                    ctx.fail("clean-raises", klass, "repeated %s raised %s" % (which, type(e).__name__))
                return "ok"
            ctx.oracle("idempotent")
            if self.exact and self.freeze(curve) != f1:
                ctx.fail("not-idempotent", klass + "-" + which, "an immediately repeated %s(tol=%s) changed the curve again" % (which, tolname))
            elif not self.exact:
                s2 = self.alpha(curve)
                if s2 is not None and s2[0] != s1[0] and tolnum == 0:
                    ctx.count("float_idempotence_not_judged")
        # ---- twin: two representations of one function clean to the same form ----
        if which == "clean" and self.exact and not rat and self.base_state is not None:
            other = self.slots[1 - t]
            if other is not None and self.cleaned[1 - t] and not self.drift[0] and not self.drift[1] and preserved:
                so = self.alpha(other)
                ctx.oracle("twin-identical")
                ctx.probe("twin-compared")
                if so != s1:
                    ctx.fail("twin-differs", "clean", "two cleaned representations of the same function differ: %s / %s vs %s / %s"
                             % ([M.enc(x) for x in s1[0]], s1[1], [M.enc(x) for x in so[0]], so[1]))
        return "ok"

    # ----- shrinking hints ---------------------------------------------------
    def simplify(self, plan):
        ops = plan["ops"]
        cfg = plan["config"]
        for i, op in enumerate(ops):
            if "nodes" in op and len(op["nodes"]) > 1:
                for j in range(len(op["nodes"])):
                    new = dict(op, nodes=op["nodes"][:j] + op["nodes"][j + 1:])
                    yield dict(plan, ops=ops[:i] + [new] + ops[i + 1:])
            if op.get("repeat"):
                yield dict(plan, ops=ops[:i] + [dict(op, repeat=False)] + ops[i + 1:])
            if isinstance(op.get("times"), int) and op["times"] > 1:
                yield dict(plan, ops=ops[:i] + [dict(op, times=op["times"] - 1)] + ops[i + 1:])
        init = cfg["init"]
        if len(init["knots"]) > 2:
            for j in range(1, len(init["knots"]) - 1):
                m = init["mults"][j]
                new = dict(init, knots=init["knots"][:j] + init["knots"][j + 1:], mults=init["mults"][:j] + init["mults"][j + 1:])
                pos = sum(init["mults"][:j]) - init["p"] - 1 + 1
                pos = max(0, min(pos, len(init["pts"]) - m))
                new["pts"] = init["pts"][:pos] + init["pts"][pos + m:]
                if "weights" in init:
                    new["weights"] = init["weights"][:pos] + init["weights"][pos + m:]
                yield dict(plan, config=dict(cfg, init=new))
        if cfg["profile"] not in ("frac",) and not cfg["profile"].startswith("sim") and cfg["profile"] != "int-ndarray":
            new = dict(init, pts=[pt[:1] for pt in init["pts"]])
            yield dict(plan, config=dict(cfg, profile="frac", init=new, mode="exact" if cfg["mode"] == "exact" else "float"))
        if "weights" in init:
            yield dict(plan, config=dict(cfg, rational=False, init={k: v for k, v in init.items() if k != "weights"}))


ENGINE = RefEngine()
