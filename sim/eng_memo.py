"""MEMO engine (C10): the module-level quadrature memo tables under simulated caller threads.

World: the class-level dict tables of heavy.NodeSample / heavy.IntegratorArray restored to their
import-time content at the start of every run; 1-3 simulated caller threads with their own request
lists, interleaved by the seeded line-level scheduler of sched.py; at most one asynchronous fault.

Oracles (evaluated on the main thread after the callers have finished):
  exactness        nodes increasing in [0,1], weights sum to 1, moments exact to the rule's order
  cold-equality    every answer equals the answer of the same request in a pristine process state
  closed forms     Integrate.scalar / function / lenght against exact references
  liveness         a request that follows any fault is still answered correctly (same oracles)
"""
import copy
import math
import random
from fractions import Fraction

from . import model as M
from .core import HarnessError, import_library
from .sched import InjectedAsync, Scheduler

NODE_FAMS = ["closed_linspace", "open_linspace", "chebyshev", "gauss_legendre"]
WEIGHT_FAMS = ["closed_newton_cotes", "open_newton_cotes", "chebyshev", "gauss_legendre"]
PAIR = {"closed_newton_cotes": "closed_linspace", "open_newton_cotes": "open_linspace",
        "chebyshev": "chebyshev", "gauss_legendre": "gauss_legendre"}
METHODS = {"closed-newton-cotes": "closed_newton_cotes", "open-newton-cotes": "open_newton_cotes",
           "chebyshev": "chebyshev", "gauss-legendre": "gauss_legendre"}
EXACT_FAMS = ("closed_newton_cotes", "open_newton_cotes")
BADN = {"zero": 0, "neg": -1, "float": 2.0, "str": "3", "none": None, "one": 1}


def _maxn(fam, tier):
    if fam in EXACT_FAMS or fam in ("closed_linspace", "open_linspace"):
        return 12 if tier == "thorough" else 10
    return 15 if tier == "thorough" else 12


def _pick_n(rng, fam, tier):
    """Sizes biased towards the cheap ones (an exact fill costs ~n^4 big-integer operations)."""
    r = rng.random()
    if r < 0.03:
        # rare large sizes, beyond anything the suite requests (64-bit overflow territory: 21! > 2**63); the float
        # Chebyshev family stops at 22, where its measured moment defect (4e-13) is still far below the 1e-11 bound
        return rng.randint(16, 22 if fam == "chebyshev" else 26)
    if r < 0.6:
        return rng.randint(1, 6)
    if r < 0.9:
        return rng.randint(4, 8)
    return rng.randint(7, _maxn(fam, tier))


# --------------------------------------------------------------------------
# plan generation
# --------------------------------------------------------------------------
def _gen_curve(rng, cls, dims=(0, 0, 2), maxp=3):
    p = rng.randint(0, 3) if (maxp <= 3 or rng.random() < 0.85) else rng.randint(4, maxp)
    nint = rng.randint(0, 3)
    if cls == "float":
        vals = sorted(set(Fraction(rng.randint(-64, 128), 32) for _ in range(nint + 2)))
    else:
        vals = sorted(set(Fraction(rng.randint(-24, 48), rng.choice([1, 2, 3, 4, 6, 12])) for _ in range(nint + 2)))
    while len(vals) < 2:
        vals = sorted(set(vals + [vals[-1] + 1]))
    top = p + 1 if (maxp > 3 and rng.random() < 0.3) else max(1, p)     # sometimes a jump (multiplicity degree+1) inside
    mults = [p + 1] + [rng.randint(1, top) for _ in vals[1:-1]] + [p + 1]
    npts = sum(mults) - p - 1
    dim = rng.choice(dims)
    pts = []
    for _ in range(npts):
        if dim == 0:
            pts.append(M.enc(Fraction(rng.randint(-9, 9), rng.choice([1, 1, 2, 3]))))
        else:
            pts.append([M.enc(Fraction(rng.randint(-9, 9))) for _ in range(dim)])
    return {"p": p, "knots": [M.enc(v) for v in vals], "mults": mults, "pts": pts, "dim": dim, "cls": cls}


def _gen_polyline(rng, cls):
    nseg = rng.randint(1, 5)
    if cls == "float":
        vals = sorted(set(Fraction(rng.randint(-64, 128), 32) for _ in range(nseg + 1)))
    else:
        vals = sorted(set(Fraction(rng.randint(-24, 48), rng.choice([1, 2, 3])) for _ in range(nseg + 1)))
    while len(vals) < 2:
        vals = sorted(set(vals + [vals[-1] + 1]))
    mults = [2] + [1] * (len(vals) - 2) + [2]
    pts = [[M.enc(Fraction(rng.randint(-9, 9))) for _ in range(2)] for _ in range(len(vals))]
    return {"p": 1, "knots": [M.enc(v) for v in vals], "mults": mults, "pts": pts, "dim": 2, "cls": cls, "ptcls": "float"}


def gen_plan(prop, seed, tier):
    rng = random.Random(seed)
    nthreads = rng.choice([1, 1, 2, 2, 2, 3])
    yield_prob = 0.0 if nthreads == 1 else rng.choice([0.002, 0.02, 0.02, 0.2])
    nreq = rng.randint(6, 40 if tier == "thorough" else 24)
    fault_rate = rng.choice([0.0, 0.1, 0.25])
    hot = []
    for _ in range(rng.randint(2, 4)):
        fam = rng.choice(WEIGHT_FAMS)
        hot.append((fam, _pick_n(rng, fam, tier)))
    ops = []
    for _ in range(nreq):
        th = rng.randrange(nthreads)
        r = rng.random()
        if r < 0.55:
            if rng.random() < 0.6:
                fam, n = rng.choice(hot)
                n = max(1, n + rng.choice([0, 0, 0, 1, -1]))
                if rng.random() < 0.2:
                    fam = rng.choice(WEIGHT_FAMS)  # same n, other family
            else:
                fam = rng.choice(WEIGHT_FAMS)
                n = _pick_n(rng, fam, tier)
            if fam == "closed_newton_cotes":
                n = max(n, 2)
            if fam == "chebyshev":
                n = min(n, 22)     # float Bernstein inversion: beyond 22 nodes the rule's own rounding approaches the 1e-11 bound
            op = {"op": rng.choice(["rule", "rule", "rule", "weights", "nodes"]), "fam": fam, "n": n, "th": th,
                  "order": rng.choice(["nw", "wn"])}
            if rng.random() < fault_rate:
                op["badn"] = rng.choice(sorted(BADN))
        elif r < 0.92:
            cls = rng.choice(["frac", "frac", "float"])
            what = rng.choice(["scalar", "scalar", "function", "lenght"])
            op = {"op": "integrate", "what": what, "th": th, "cls": cls}
            op["curve"] = _gen_polyline(rng, cls) if what == "lenght" else _gen_curve(rng, cls, dims=(0,), maxp=8)
            p = op["curve"]["p"]
            if rng.random() < 0.5:
                m = rng.choice(sorted(METHODS))
                need = {"closed-newton-cotes": max(2, p + 1), "open-newton-cotes": p + 1, "chebyshev": p + 1,
                        "gauss-legendre": (p + 2) // 2}[m]
                if what == "function":
                    need = max(need, p + 2)
                op["method"] = m
                op["nnodes"] = need + rng.randint(0, 3)
            if what == "function":
                op["poly"] = [M.enc(Fraction(rng.randint(-5, 5), rng.choice([1, 2, 3]))) for _ in range(rng.randint(1, p + 1))]
                if rng.random() < 0.3:
                    # the integrand is itself a Curve object defined on a LARGER interval, with an interior knot outside the
                    # interval of integration (so it is one polynomial on every span of the knot vector that is integrated over)
                    op["gcurve"] = {"p": rng.randint(1, 3), "ext": M.enc(Fraction(rng.randint(1, 4), rng.choice([1, 2]))),
                                    "pts": [M.enc(Fraction(rng.randint(-9, 9), rng.choice([1, 2, 3]))) for _ in range(5)]}
                    if "nnodes" in op:
                        op["nnodes"] = max(op["nnodes"], 4)
                    else:
                        op["method"] = rng.choice(sorted(METHODS))
                        op["nnodes"] = {"closed-newton-cotes": 4, "open-newton-cotes": 4, "chebyshev": 4, "gauss-legendre": 2}[op["method"]] + rng.randint(0, 2)
            if rng.random() < fault_rate:
                op["func_fault"] = rng.randint(0, 6)
            if cls == "frac" and what in ("scalar", "function") and "gcurve" not in op and rng.random() < 0.3:
                # number-class history: the same request on numerically equal float data (binary-fraction knots), with
                # the same rule and size, is served first by the same thread; the rational request must still be exact
                curve = _gen_curve(rng, "float", dims=(0,), maxp=4)
                op["curve"] = dict(curve, cls="frac")
                p = curve["p"]
                op.pop("method", None), op.pop("nnodes", None)
                if rng.random() < 0.6:
                    op["method"] = rng.choice(["closed-newton-cotes", "open-newton-cotes"])
                    op["nnodes"] = max(2, p + 2) + rng.randint(0, 2)
                if what == "function":
                    op["poly"] = op["poly"][: p + 1]
                twin = dict(op, cls="float", curve=dict(curve, cls="float"), method=op.get("method", "open-newton-cotes"))
                twin.pop("func_fault", None)
                ops.append(twin)
        else:
            cls = rng.choice(["frac", "frac", "float"])
            c = _gen_curve(rng, cls)
            while c["p"] > 2 or sum(c["mults"]) > 8 or c["dim"] == 2 and sum(c["mults"]) > 7:
                c = _gen_curve(rng, cls)
            op = {"op": "consume", "th": th, "cls": cls, "curve": c, "kind": rng.choice(["insert-remove", "remove", "elevate-reduce"]),
                  "sel": rng.randrange(8), "t": rng.choice(["1/2", "1/3", "3/4"])}
        ops.append(op)
    cfg = {"nthreads": nthreads, "yield_prob": yield_prob, "sched_seed": rng.randrange(2 ** 32), "fault_rate": fault_rate}
    if rng.random() < 0.5:
        # an asynchronous failure of one request, biased towards requests that have to fill a table
        cand = [i for i, o in enumerate(ops) if o["op"] in ("rule", "weights", "nodes", "consume") and "badn" not in o]
        # prefer requests that are the first of their (family, size) in the plan: those have to fill a table
        seen, first = set(), []
        for i in cand:
            key = (ops[i].get("fam"), ops[i].get("n"))
            if ops[i]["op"] != "consume" and key not in seen and ops[i].get("n", 0) >= 4:
                first.append(i)
            seen.add(key)
        if cand:
            i = rng.choice(first) if (first and rng.random() < 0.7) else rng.choice(cand)
            if ops[i].get("fam") == "gauss_legendre" or (ops[i]["op"] == "nodes" and ops[i].get("fam") == "chebyshev"):
                k = rng.randint(1, 12)          # these fills are a handful of lines long
            else:
                k = int(math.exp(rng.uniform(0, math.log(4000))))
            ops[i]["async_k"] = k   # stored on the request itself so that shrinking keeps it attached
    # number-class history for the equally spaced samplers: NodeSample.closed_linspace / open_linspace take the number
    # class as a documented second argument; a float request for a size must not change what the default (Fraction)
    # request and the Newton-Cotes weights of that size return afterwards.  Drawn from a generator of its own so that
    # every other decision of the plan is the same as without this addition
    rng2 = random.Random((seed * 0x9E3779B97F4A7C15 + 0x1234567) % (1 << 64))
    if rng2.random() < 0.35:
        sites = [i for i, o in enumerate(ops) if o["op"] in ("rule", "weights", "nodes") and o.get("fam") in EXACT_FAMS and "badn" not in o]
        for i in sorted(rng2.sample(sites, min(len(sites), rng2.randint(1, 2))), reverse=True):
            ops.insert(i, {"op": "nodes", "fam": ops[i]["fam"], "n": ops[i]["n"], "th": ops[i]["th"], "order": "nw", "ncls": "float"})
    return {"property": prop, "engine": "memo", "seed": seed, "tier": tier, "config": cfg, "ops": ops}


# --------------------------------------------------------------------------
# executor
# --------------------------------------------------------------------------
class MemoEngine:
    name = "memo"
    gen_plan = staticmethod(gen_plan)

    def setup(self):
        self.lib = import_library()
        from compmec.nurbs import heavy, calculus
        import numpy
        self.np = numpy
        self.heavy = heavy
        self.calculus = calculus
        self.NodeSample = heavy.NodeSample
        self.IntegratorArray = heavy.IntegratorArray
        # every class-level dict of the two classes is a memo table (found generically, so a renamed
        # or added table is still reset between runs)
        self.tables = []
        import inspect
        owners = []
        for mod in (heavy, calculus):
            owners.append(mod)
            for _, cls in sorted(vars(mod).items()):
                if inspect.isclass(cls) and getattr(cls, "__module__", None) == mod.__name__:
                    owners.append(cls)
        seen = set()
        for owner in owners:
            for name, val in sorted(vars(owner).items()):
                if isinstance(val, dict) and id(val) not in seen and not (name.startswith("__") and name.endswith("__")):
                    seen.add(id(val))
                    try:
                        self.tables.append((owner, name, val, copy.deepcopy(val)))
                    except Exception:  # noqa  (not a plain data table)
                        pass
        self.cold = {}

    def cleanup(self):
        import sys
        sys.settrace(None)

    def restore_tables(self):
        for cls, name, obj, pristine in self.tables:
            cur = getattr(cls, name, None)
            if cur is not obj:
                setattr(cls, name, obj)
            obj.clear()
            obj.update(copy.deepcopy(pristine))

    def table_state(self):
        return tuple((name, tuple(sorted(k for k in obj if isinstance(k, int)))) for _, name, obj, _ in self.tables)

    def table_lookup(self, fam, n):
        """Is (family, n) already stored?  Family tags are the function names of the fillers."""
        cls = self.NodeSample if fam.startswith("N:") else self.IntegratorArray
        if not isinstance(n, int):
            return True
        want = {"N:chebyshev": "__cheby", "N:gauss_legendre": "__gauss", "I:closed_newton_cotes": "__closed_newton",
                "I:open_newton_cotes": "__open_newton", "I:chebyshev": "__cheby", "I:gauss_legendre": "__gauss"}[fam]
        for c, name, obj, _ in self.tables:
            if c is cls and name.endswith(want):
                return n in obj
        return True

    # ----- building library objects from plan specs ----------------------
    def mk(self, s, cls):
        v = M.dec(s)
        return float(v) if cls == "float" else v

    def build_curve(self, spec):
        cls = spec["cls"]
        L = []
        for k, m in zip(spec["knots"], spec["mults"]):
            L += [self.mk(k, cls)] * m
        if spec["dim"] == 0:
            pts = [self.mk(x, cls) for x in spec["pts"]]
        else:
            if spec.get("ptcls", cls) == "float":
                pts = [self.np.array([float(M.dec(x)) for x in pt]) for pt in spec["pts"]]
            else:
                pts = [self.np.array([M.dec(x) for x in pt], dtype=object) for pt in spec["pts"]]
        return self.lib.Curve(L, pts)

    def gcurve_spec(self, op):
        """Knots / points of the integrand curve: same left end as the integrated interval, right end beyond it, one interior
        knot strictly to the right of the integrated interval."""
        spec = op["curve"]
        lo, hi = M.dec(spec["knots"][0]), M.dec(spec["knots"][-1])
        ext = M.dec(op["gcurve"]["ext"])
        q = op["gcurve"]["p"]
        inner = hi + ext / 2
        L = [lo] * (q + 1) + [inner] + [hi + ext] * (q + 1)
        P = [M.dec(x) for x in op["gcurve"]["pts"][: q + 2]]
        return L, P

    def build_gcurve(self, op):
        L, P = self.gcurve_spec(op)
        cls = op["cls"]
        conv = (lambda v: float(v)) if cls == "float" else (lambda v: v)
        return self.lib.Curve([conv(x) for x in L], [conv(x) for x in P])

    def model_state(self, spec):
        L = []
        for k, m in zip(spec["knots"], spec["mults"]):
            L += [M.dec(k)] * m
        if spec["dim"] == 0:
            P = [M.dec(x) for x in spec["pts"]]
        else:
            P = [tuple(M.dec(x) for x in pt) for pt in spec["pts"]]
        return (L, P, None)

    # ----- requests ---------------------------------------------------------
    def do_request(self, op):
        """Execute one request against the library; returns a JSON-able answer."""
        kind = op["op"]
        if kind in ("rule", "weights", "nodes"):
            n = BADN[op["badn"]] if "badn" in op else op["n"]
            fam = op["fam"]
            nf = getattr(self.NodeSample, PAIR[fam])
            wf = getattr(self.IntegratorArray, fam)
            if kind == "nodes" and op.get("ncls") == "float":
                return {"nodes": tuple(nf(n, float))}
            if kind == "nodes":
                return {"nodes": tuple(nf(n))}
            if kind == "weights":
                return {"weights": tuple(wf(n))}
            if op["order"] == "nw":
                nodes = nf(n)
                weights = wf(n)
            else:
                weights = wf(n)
                nodes = nf(n)
            return {"nodes": tuple(nodes), "weights": tuple(weights)}
        if kind == "integrate":
            curve = self.build_curve(op["curve"])
            method = op.get("method")
            nnodes = op.get("nnodes")
            what = op["what"]
            Integrate = self.calculus.Integrate
            fault_at = op.get("func_fault")
            calls = [0]
            if what == "function" and "gcurve" in op:
                g = self.build_gcurve(op)
                return {"value": Integrate.function(curve.knotvector, g, method, nnodes)}
            if what == "function":
                coefs = [self.mk(c, op["cls"]) for c in op["poly"]]

                def f(u):
                    calls[0] += 1
                    if fault_at is not None and calls[0] > fault_at:
                        raise InjectedEnv("user integrand failed at call %d" % calls[0])
                    s = 0 * u
                    for c in reversed(coefs):
                        s = s * u + c
                    return s
                return {"value": Integrate.function(curve.knotvector, f, method, nnodes)}
            g = None
            if fault_at is not None:
                def g(u):
                    calls[0] += 1
                    if calls[0] > fault_at:
                        raise InjectedEnv("user weight function failed at call %d" % calls[0])
                    return 1
            if what == "scalar":
                return {"value": Integrate.scalar(curve, g, method, nnodes)}
            return {"value": Integrate.lenght(curve, g, method, nnodes)}
        if kind == "consume":
            curve = self.build_curve(op["curve"])
            ks = list(curve.knotvector.knots)
            what = op["kind"]
            out = {}
            try:
                if what == "insert-remove":
                    j = op["sel"] % (len(ks) - 1)
                    t = self.mk(op["t"], op["cls"])
                    node = ks[j] + (ks[j + 1] - ks[j]) * t
                    curve.knot_insert([node])
                    curve.knot_remove([node])
                elif what == "remove":
                    if len(ks) > 2:
                        curve.knot_remove([ks[1 + op["sel"] % (len(ks) - 2)]])
                    else:
                        curve.knot_clean()
                else:
                    curve.degree_increase(1)
                    curve.degree_decrease(1)
                out["exc"] = None
            except InjectedAsync:
                raise
            except Exception as e:  # noqa
                out["exc"] = type(e).__name__
            out["knots"] = tuple(curve.knotvector)
            out["pts"] = tuple(tuple(p) if hasattr(p, "__len__") else p for p in curve.ctrlpoints)
            return out
        raise HarnessError("unknown request %r" % (kind,))

    def cold_answer(self, op):
        cacheable = op["op"] in ("rule", "weights", "nodes")
        key = (op["op"], op.get("fam"), op.get("n"), op.get("order"), op.get("ncls")) if cacheable else None
        if cacheable and key in self.cold:
            return self.cold[key]
        self.restore_tables()
        clean = {k: v for k, v in op.items() if k not in ("func_fault", "async_k")}
        try:
            res = ("ok", self.do_request(clean))
        except Exception as e:  # noqa
            res = ("raise", type(e).__name__)
        if cacheable:
            self.cold[key] = res
        return res

    # ----- one run -----------------------------------------------------------
    def run(self, plan, ctx):
        cfg = plan["config"]
        ops = plan["ops"]
        self.restore_tables()
        n = cfg["nthreads"]
        sched = Scheduler(n, cfg["yield_prob"], cfg["sched_seed"], ("heavy.py", "calculus.py"),
                          _FillNames(), self.table_lookup)
        results = [None] * len(ops)
        states = []

        def work(tid):
            for i, op in enumerate(ops):
                if op["th"] % n != tid:
                    continue
                states.append(self.table_state())
                if "async_k" in op:
                    sched.async_spec = (tid, op["async_k"])
                sched.arm()
                try:
                    results[i] = ("ok", self.do_request(op))
                except InjectedAsync:
                    results[i] = ("async", None)
                except InjectedEnv:
                    results[i] = ("envfault", None)
                except Exception as e:  # noqa
                    results[i] = ("raise", type(e).__name__)
                finally:
                    import sys
                    sys.settrace(None)
                    if sched.async_spec is not None and sched.async_spec[0] == tid:
                        sched.async_spec = None  # the request was shorter than k line events: no fault

        try:
            sched.run(work)
        except RuntimeError as e:
            raise HarnessError(str(e))
        ctx.count("sched_points", sched.points)
        ctx.count("context_switches", sched.switches)
        ctx.count("line_events", sum(sched.line_events))
        ctx.count("threads", n)
        if sched.same_fill_overlaps:
            ctx.probe("two-threads-inside-same-fill")
            ctx.count("same_fill_overlaps", sched.same_fill_overlaps)
        if sched.async_fired is not None:
            ctx.fault("async-" + sched.async_fired[2])
            ctx.probe("async-fault-" + sched.async_fired[2])
        ctx.step = -1
        ctx.log("sched", n, sched.points, sched.switches, hash_sig(sched.signature),
                list(sched.async_fired) if sched.async_fired else None)
        if sched.switches:
            ctx.state(("sig", hash_sig(sched.signature)))
        for st in states:
            ctx.state(("tables", st))
        # ---- final sweep first (bounded liveness): with the tables exactly as the run left them, after all
        # faults have stopped, every family must still answer correctly within the one call
        sweep = []
        for fam in WEIGHT_FAMS:
            for nn in sorted(set([2, 3, 5] + [o["n"] for o in ops if o.get("fam") == fam and "badn" not in o]))[:6]:
                if fam == "closed_newton_cotes" and nn < 2:
                    continue
                op = {"op": "rule", "fam": fam, "n": nn, "th": 0, "order": "nw"}
                try:
                    sweep.append((op, "ok", self.do_request(op)))
                except Exception as e:  # noqa
                    sweep.append((op, "raise", type(e).__name__))
        final_tables = self.table_state()
        # ---- oracles (main thread, no tracing) ----
        for i in range(len(ops)):
            if results[i] is None:
                continue
            ctx.step = i
            op = ops[i]
            status, ans = results[i]
            ctx.count("op:" + op["op"])
            if status == "async":
                ctx.log(op["op"], "async")
                continue
            if status == "envfault":
                ctx.fault("integrand-raises")
                ctx.log(op["op"], "envfault")
                continue
            if "badn" in op:
                ctx.fault("invalid-size-" + op["badn"])
                if status == "raise":
                    ctx.log(op["op"], "refused")
                    continue
                # an "invalid" size that the library chose to answer (e.g. n=1 for a family that allows it)
                if not (isinstance(BADN[op["badn"]], int) and BADN[op["badn"]] >= 1):
                    ctx.log(op["op"], "accepted-odd-size")
                    continue
                op = dict(op, n=BADN[op["badn"]])
                op.pop("badn")
            if "func_fault" in op:
                ctx.count("integrand_fault_not_reached")
            self.judge(ctx, op, status, ans)
            ctx.log(op["op"], op.get("fam", op.get("what", op.get("kind"))), op.get("n"), status)
        ctx.step = len(ops)
        for op, status, ans in sweep:
            self.judge(ctx, op, status, ans, tag="final-sweep")
        ctx.log("final", [len(t[1]) for t in final_tables])
        if any(r is not None and r[0] == "ok" for r in results):
            ctx.transitions += 1

    # ----- oracles -----------------------------------------------------------
    def judge(self, ctx, op, status, ans, tag="request"):
        kind = op["op"]
        cold = self.cold_answer(op)
        # tables may have been reset by cold_answer: that is fine, oracles below only use `ans`
        if kind in ("rule", "weights", "nodes"):
            fam, n = op["fam"], op["n"]
            klass = fam
            if status != "ok":
                if cold[0] == "ok":
                    ctx.oracle("liveness")
                    ctx.fail("request-fails-after-history", klass, "%s(%s, n=%r) raised %s although the same request succeeds in a pristine state"
                             % (kind, fam, n, ans))
                return
            ctx.oracle("cold-equality")
            if cold[0] != "ok":
                return
            for key in ans:
                if not seq_equal(ans[key], cold[1][key]):
                    ctx.fail("history-dependent-answer", klass, "%s %s(n=%d) = %s differs from the cold answer %s (%s)"
                             % (key, fam, n, short(ans[key]), short(cold[1][key]), tag))
                    return
            if "nodes" in ans:
                ctx.oracle("nodes-wellformed")
                xs = [M.Fr(x) for x in ans["nodes"]]
                if len(xs) != n or any(not (0 <= x <= 1) for x in xs) or any(not a < b for a, b in zip(xs, xs[1:])):
                    ctx.fail("nodes-illformed", klass, "nodes %s(n=%d) = %s are not %d increasing values in [0,1]" % (PAIR[fam], n, short(ans["nodes"]), n))
                    return
            if "weights" in ans:
                ctx.oracle("weights-sum")
                ws = [M.Fr(w) for w in ans["weights"]]
                tol = 0 if fam in EXACT_FAMS else Fraction(1, 10 ** 11)
                if len(ws) != n or abs(sum(ws) - 1) > tol:
                    ctx.fail("weights-sum", klass, "weights %s(n=%d) = %s do not sum to 1" % (fam, n, short(ans["weights"])))
                    return
            if kind == "rule":
                ctx.oracle("moment-exactness")
                upto = 2 * n if fam == "gauss_legendre" else n
                exact = fam in EXACT_FAMS
                d = M.moment_defect(ans["nodes"], ans["weights"], upto)
                tol = 0 if exact else Fraction(1, 10 ** 11)
                if d > tol:
                    ctx.fail("rule-not-exact", klass, "%s n=%d: max moment defect %.3e for degree < %d (%s)" % (fam, n, float(d), upto, tag))
            return
        if kind == "integrate":
            what = op["what"]
            klass = what
            spec = op["curve"]
            # a closed rule samples both ends of every span; where the integrand jumps at an interior knot
            # (degree-0 curves, the derivative of a polyline) the library evaluates the right-continuous value
            # at the right end of the span -> listed known finding, kept apart from every other failure
            jumps = len(spec["knots"]) > 2 and (spec["p"] == 0 or what == "lenght" or
                                                 any(m > spec["p"] for m in spec["mults"][1:-1]))
            closed_at_jump = op.get("method") == "closed-newton-cotes" and jumps
            if status != "ok":
                if cold[0] == "ok":
                    ctx.oracle("liveness")
                    ctx.fail("request-fails-after-history", klass, "Integrate.%s raised %s although it succeeds in a pristine state" % (what, ans))
                return
            ctx.oracle("cold-equality")
            if cold[0] == "ok" and not val_equal(ans["value"], cold[1]["value"]):
                ctx.fail("history-dependent-answer", klass, "Integrate.%s = %r differs from the cold answer %r" % (what, ans["value"], cold[1]["value"]))
                return
            ctx.oracle("closed-form")
            st = self.model_state(op["curve"])
            L, P, _ = st
            p = M.kv_degree(L)
            exact = op["cls"] == "frac" and METHODS.get(op.get("method"), "open_newton_cotes") in EXACT_FAMS
            if what == "scalar":
                exp = None
                for i, pt in enumerate(P):
                    c = (L[i + p + 1] - L[i]) / (p + 1)
                    term = M._pt_scale(c, pt)
                    exp = term if exp is None else M._pt_add(exp, term)
                self.compare_value(ctx, "closed-rule-at-discontinuity" if closed_at_jump else klass,
                                   "Integrate.scalar", ans["value"], exp, exact)
            elif what == "function" and "gcurve" in op:
                gL, gP = self.gcurve_spec(op)
                breaks, comps = M.pieces((gL, gP, None))
                exp = M.p_int(comps[0]["num"][0], L[0], L[-1])      # the integrated interval lies inside the integrand's first span
                self.compare_value(ctx, klass, "Integrate.function(curve object)", ans["value"], exp, exact)
            elif what == "function":
                coefs = [M.dec(c) for c in op["poly"]]
                exp = M.p_int(coefs, L[0], L[-1])
                self.compare_value(ctx, klass, "Integrate.function", ans["value"], exp, exact)
            else:
                tot = 0.0
                for a, b in zip(P, P[1:]):
                    tot += math.sqrt(float(sum((x - y) ** 2 for x, y in zip(a, b))))
                got = float(ans["value"])
                if abs(got - tot) > 1e-10 * max(1.0, tot):
                    ctx.fail("closed-form", "closed-rule-at-discontinuity" if closed_at_jump else klass,
                             "Integrate.lenght of a polyline = %r, sum of segment lengths = %r" % (got, tot))
            return
        if kind == "consume":
            ctx.oracle("cold-equality")
            if status != "ok":
                if cold[0] == "ok":
                    ctx.fail("request-fails-after-history", "consume", "table consumer raised %s although it succeeds in a pristine state" % (ans,))
                return
            if cold[0] != "ok":
                return
            c = cold[1]
            if ans["exc"] != c["exc"] or not seq_equal(ans["knots"], c["knots"]) or not pts_equal(ans["pts"], c["pts"]):
                ctx.fail("history-dependent-answer", "consume-" + op["kind"],
                         "a knot removal / degree reduction that consumes the tables gave a different curve than in a pristine state")

    def compare_value(self, ctx, klass, label, got, exp, exact):
        g = got if hasattr(got, "__len__") else (got,)
        e = exp if isinstance(exp, tuple) else (exp,)
        if len(g) != len(e):
            ctx.fail("closed-form", klass, "%s returned a value of the wrong shape" % label)
            return
        for x, y in zip(g, e):
            if exact:
                try:
                    ok = M.Fr(x) == y
                except (TypeError, ValueError):
                    ok = False
                if not ok:
                    ctx.fail("closed-form", klass if klass.startswith("closed-rule") else klass + "-exact",
                             "%s = %r, closed form %s" % (label, x, M.enc(y)))
                    return
            else:
                if abs(float(x) - float(y)) > 1e-9 * max(1.0, abs(float(y))):
                    ctx.fail("closed-form", klass if klass.startswith("closed-rule") else klass + "-float",
                             "%s = %r, closed form %r" % (label, float(x), float(y)))
                    return

    def simplify(self, plan):
        cfg = plan["config"]
        for i, op in enumerate(plan["ops"]):
            if "async_k" in op:
                new = {k: v for k, v in op.items() if k != "async_k"}
                yield dict(plan, ops=plan["ops"][:i] + [new] + plan["ops"][i + 1:])
                if op["async_k"] > 1:
                    yield dict(plan, ops=plan["ops"][:i] + [dict(op, async_k=op["async_k"] // 2)] + plan["ops"][i + 1:])
        if cfg["nthreads"] > 1:
            yield dict(plan, config=dict(cfg, nthreads=cfg["nthreads"] - 1))
            yield dict(plan, config=dict(cfg, nthreads=1, yield_prob=0.0))
        for i, op in enumerate(plan["ops"]):
            if "func_fault" in op or "badn" in op:
                new = {k: v for k, v in op.items() if k not in ("func_fault", "badn")}
                yield dict(plan, ops=plan["ops"][:i] + [new] + plan["ops"][i + 1:])


class InjectedEnv(Exception):
    """Failure of a user-supplied callable (environment fault)."""


class _FillNames(dict):
    """co_name -> family tag; NodeSample and IntegratorArray share some method names, so the tag is
    resolved from the frame's qualified name at lookup time by Scheduler via plain names only."""

    def get(self, name, default=None):
        return {"IntegratorArray.closed_newton_cotes": "I:closed_newton_cotes",
                "IntegratorArray.open_newton_cotes": "I:open_newton_cotes",
                "IntegratorArray.chebyshev": "I:chebyshev", "IntegratorArray.gauss_legendre": "I:gauss_legendre",
                "NodeSample.chebyshev": "N:chebyshev", "NodeSample.gauss_legendre": "N:gauss_legendre"}.get(name, default)


def hash_sig(sig):
    import hashlib
    return hashlib.sha256(repr(sig).encode()).hexdigest()[:12]


def short(seq):
    s = [M.enc(M.Fr(x)) if not isinstance(x, float) else repr(x) for x in list(seq)[:6]]
    return "(" + ", ".join(s) + (", ...)" if len(seq) > 6 else ")")


def val_equal(a, b):
    try:
        if hasattr(a, "__len__") or hasattr(b, "__len__"):
            return seq_equal(tuple(a), tuple(b))
        if isinstance(a, float) or isinstance(b, float):
            fa, fb = float(a), float(b)
            return abs(fa - fb) <= 1e-13 * max(1.0, abs(fa), abs(fb))
        return M.Fr(a) == M.Fr(b)
    except (TypeError, ValueError):
        return False


def seq_equal(a, b):
    a, b = list(a), list(b)
    return len(a) == len(b) and all(val_equal(x, y) for x, y in zip(a, b))


def pts_equal(a, b):
    if len(a) != len(b):
        return False
    for x, y in zip(a, b):
        if not val_equal(x, y):
            return False
    return True


ENGINE = MemoEngine()
