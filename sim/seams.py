"""Environment side of the value-type seam: simulated control-point types and the per-run fault controller.

Every SimPoint operation is a pure function of its operands and of the profile; faults can only fire
while the controller is armed (i.e. while the library operation under test runs) and are sticky for the
rest of the armed call (see DESIGN section 3.3 for why: numpy object loops do not stop at the first raise).
"""
from fractions import Fraction

from . import model as M

PROFILES = ("full", "minimal", "nofloat", "bounded", "inplace", "floatable")


class Seam:
    """Per-run controller shared by all SimPoints of the run."""

    def __init__(self, ctx=None):
        self.ctx = ctx
        self.armed = False
        self.sticky = None
        self.calls = 0
        self.fired = 0

    def arm(self):
        self.armed = True
        self.sticky = None

    def disarm(self):
        fired = self.sticky is not None
        self.armed = False
        self.sticky = None
        return fired

    def op(self):
        self.calls += 1
        if self.armed and self.sticky is not None:
            raise self.sticky

    def fail(self, exc, kind):
        """Raise an environment fault (only while armed; outside armed sections the harness itself is
        computing snapshots and must not be disturbed)."""
        if not self.armed:
            return
        self.fired += 1
        if self.ctx is not None:
            self.ctx.fault(kind)
        self.sticky = exc
        raise exc


def _num(x):
    """Exact value of a library-side scalar, or None if it is not a number the point type accepts."""
    if isinstance(x, (bool, str)) or x is None:
        return None
    if isinstance(x, SimPoint):
        return None
    try:
        return M.Fr(x)
    except (TypeError, ValueError):
        return None


class SimPoint:
    """2-D (or k-D) point with exact coordinates and a behaviour profile.

    full      every operator (add, sub, neg, scalar mul/div from both sides, matmul), immutable
    minimal   only point + point and scalar * point  (the documentation's minimal contract)
    nofloat   like full, but a float scalar raises TypeError (an exact-only user type)
    bounded   like full, but OverflowError once a numerator/denominator exceeds `bound` (fixed precision)
    inplace   like full, and implements *=, +=, /= IN PLACE (like an ndarray) -> exposes aliasing
    """
    __array_ufunc__ = None  # numpy scalars defer to our reflected operators

    def __init__(self, coords, profile, seam, bound=None):
        self.c = tuple(Fraction(x) for x in coords)
        self.profile = profile
        self.seam = seam
        self.bound = bound

    # ---- helpers ----
    def _new(self, coords):
        if self.profile == "bounded" and self.bound is not None:
            for x in coords:
                if abs(x.numerator) > self.bound or x.denominator > self.bound:
                    self.seam.fail(OverflowError("SimPoint precision bound exceeded"), "point-overflow")
                    break
        return SimPoint(coords, self.profile, self.seam, self.bound)

    def _scalar(self, s):
        v = _num(s)
        if v is None:
            return None
        if self.profile == "nofloat" and isinstance(s, float):
            self.seam.fail(TypeError("this point type does not accept float scalars"), "point-float-scalar")
        return v

    def __repr__(self):
        return "SimPoint(%s)" % ", ".join(M.enc(x) for x in self.c)

    def __float__(self):
        # only the 'floatable' profile can be converted (like a dual number or a quantity reporting its principal value):
        # a library that silently does so loses the other coordinates
        if self.profile != "floatable":
            raise TypeError("float() argument must be a string or a real number, not 'SimPoint'")
        return float(self.c[0])

    def __copy__(self):
        return SimPoint(self.c, self.profile, self.seam, self.bound)

    def __deepcopy__(self, memo):
        return SimPoint(self.c, self.profile, self.seam, self.bound)

    # ---- the minimal contract ----
    def __add__(self, other):
        self.seam.op()
        if isinstance(other, SimPoint):
            if len(other.c) != len(self.c):
                raise ValueError("dimension mismatch")
            return self._new(tuple(a + b for a, b in zip(self.c, other.c)))
        if self.profile != "minimal":
            v = _num(other)
            if v is not None and v == 0:
                return self._new(self.c)
        return NotImplemented

    def __rmul__(self, s):
        self.seam.op()
        v = self._scalar(s)
        if v is None:
            return NotImplemented
        return self._new(tuple(v * a for a in self.c))

    # ---- everything else: not available in the minimal profile ----
    def __radd__(self, other):
        if self.profile == "minimal":
            return NotImplemented
        return self.__add__(other)

    def __mul__(self, s):
        if self.profile == "minimal":
            return NotImplemented
        return self.__rmul__(s)

    def __truediv__(self, s):
        if self.profile == "minimal":
            return NotImplemented
        self.seam.op()
        v = self._scalar(s)
        if v is None:
            return NotImplemented
        if v == 0:
            raise ZeroDivisionError("SimPoint / 0")
        return self._new(tuple(a / v for a in self.c))

    def __neg__(self):
        if self.profile == "minimal":
            raise TypeError("bad operand type for unary -: 'SimPoint'")
        self.seam.op()
        return self._new(tuple(-a for a in self.c))

    def __sub__(self, other):
        if self.profile == "minimal" or not isinstance(other, SimPoint):
            return NotImplemented
        self.seam.op()
        return self._new(tuple(a - b for a, b in zip(self.c, other.c)))

    def __matmul__(self, other):
        if self.profile == "minimal" or not isinstance(other, SimPoint):
            return NotImplemented
        self.seam.op()
        return sum((a * b for a, b in zip(self.c, other.c)), Fraction(0))

    # ---- in-place operators (only the 'inplace' profile mutates) ----
    def __imul__(self, s):
        if self.profile != "inplace":
            return self.__mul__(s)
        self.seam.op()
        v = self._scalar(s)
        if v is None:
            return NotImplemented
        self.c = tuple(v * a for a in self.c)
        return self

    def __iadd__(self, other):
        if self.profile != "inplace":
            return self.__add__(other)
        self.seam.op()
        if not isinstance(other, SimPoint):
            return NotImplemented
        self.c = tuple(a + b for a, b in zip(self.c, other.c))
        return self

    def __itruediv__(self, s):
        if self.profile != "inplace":
            return self.__truediv__(s)
        self.seam.op()
        v = self._scalar(s)
        if v is None:
            return NotImplemented
        self.c = tuple(a / v for a in self.c)
        return self
