"""Per-property budgets and the fixed descriptive parts of the evidence files."""

REAL_ALL = ["compmec.nurbs (all modules) imported from /repo/src of the working tree, unmodified",
            "numpy as installed in /venv"]

_SWARM = ("swarm dimensions varied per run: number class, point type (Fraction / float scalars, object / float64 / int64 ndarrays, reversed row views of one "
          "parent array, SimPoint profiles), argument forms (list / tuple / ndarray / one-shot iterator), rational or not, sizes (incl. rare long curves, "
          "large denominators, control points 1e6 from the origin), fault rate and fault kinds")

_COMMON_ASSUME = [
    "sampling, not proof: a clean batch means no violation on the explored plans only",
    "the exact reference model in /verif/sim/model.py (Cox-de Boor, knot-vector semantics) is trusted; it shares no code with the library and has its own self-test",
    "distinct knots stay >= 1e-4 apart (>= 1e-3 in float mode), far above the library's 1e-6/1e-9 coincidence tolerances (exception: C18 judges affine maps on the element list alone and keeps nearly coincident knots)",
    _SWARM,
]

DESCRIBE = {
    "C03": {
        "budgets": {"quick": (24000, 240), "thorough": (1500000, 3000)},
        "rule": ("one evaluation = one seeded operation-and-fault history (3-25 public KnotVector operations on a pool of up to 3 "
                 "vectors incl. copies and aliases; ~0-50% of steps carry an invalid request or an environment fault) executed against "
                 "the real KnotVector with the per-step oracles (well-formedness, query agreement, refusal with the stated exception, "
                 "refusal atomicity, non-interference); a run is non-trivial when at least one state transition succeeded AND at least one "
                 "fault actually fired; distinct = distinct sha256 of the run's event log"),
        "real": REAL_ALL,
        "stubs": ["SimScalar (bounded user number type for shift/scale arguments)", "FailingIterable (node iterable that raises midway)",
                  "scripted numpy.random.randint during GeneratorKnotVector.random"],
        "assumptions": _COMMON_ASSUME + [
            "a request whose intended result (multiset union/difference, affine image, literal) is not a well-formed clamped vector, or which lies outside the interval, must be refused: ValueError for construction/insert/remove, any exception otherwise; non-numeric arguments may be refused with any exception (the suite itself expects TypeError there)",
            "the oracle does not prescribe the result of a successful insert/|/&/split (C04, C17, C07); it adopts the implementation's element list after verifying it",
            "NaN/inf knots are not generated",
        ],
        "expected_probes": ["insert-outside", "insert-excess-multiplicity", "remove-absent", "remove-leaves-illformed",
                            "remove-to-constant-or-empty", "degree-decrease-impossible", "union-different-intervals",
                            "scale-nonpositive"],
    },
    "C18": {
        "budgets": {"quick": (24000, 240), "thorough": (1500000, 3000)},
        "rule": ("one evaluation = one seeded history on a pool of knot vectors dominated by generator calls (random() under a scripted or "
                 "seeded RNG: uniform, all-low, all-high, all-equal, tiny and 49-like draw vectors) and shift/scale/normalize transitions, with "
                 "invalid arguments and SimScalar faults mixed in; judged: generator postconditions (shape, simple interior knots, types, spacing, "
                 "interval exactly [0,1]), affine image of every knot, multiplicities preserved, normalize onto exactly [0,1], refusal atomicity; "
                 "non-trivial = at least one successful transition AND one fired fault; distinct = distinct event-log digest"),
        "real": REAL_ALL,
        "stubs": ["scripted numpy.random.randint (returns the plan's draws mapped onto the [low, high) the library asked for)",
                  "numpy.random.seed(s) + the real generator in 'real' mode", "SimScalar for shift/scale arguments"],
        "assumptions": _COMMON_ASSUME + [
            "bezier/integer/uniform/weight postconditions and the reparametrisation identity are pure by-products riding on the runs (DESIGN §5 C18); what simulation adds is the RNG seam and the transition checks",
            "float-mode affine images are compared with relative tolerance 1e-12; interval ends after normalize()/uniform()/random() must be exactly 0 and 1 in every number class",
        ],
        "expected_probes": ["rng-scripted-draw", "rng-all-equal-draws", "scale-nonpositive"],
    },
    "C10": {
        "budgets": {"quick": (1200, 240), "thorough": (150000, 3300)},
        "rule": ("one evaluation = one seeded run: memo tables restored to import-time content, 1-3 simulated caller threads each with its own "
                 "request list (rule / nodes / weights for all four families with colliding and neighbouring sizes, Integrate.scalar/function/lenght, "
                 "knot removals and degree reductions as table consumers, invalid sizes, failing integrands), interleaved at Python-line granularity "
                 "inside heavy.py/calculus.py by a seeded scheduler, with at most one asynchronous exception injected at the k-th line of a request; "
                 "every answered request and a final sweep over all families are judged for exactness (moments), equality with the cold answer and "
                 "closed forms; non-trivial = at least one answered request AND at least one fired fault; distinct = distinct event-log digest"),
        "real": REAL_ALL,
        "stubs": ["simulated caller threads (real threads, baton passing; the seeded scheduler decides who runs at every line event)",
                  "asynchronous-fault injector (exception raised from the sys.settrace local trace function)",
                  "user integrands / weight functions that raise at a seeded call", "memo-table reset between runs (class attributes restored from a pristine deep copy)"],
        "assumptions": _COMMON_ASSUME + [
            "interleavings are explored at Python line granularity inside heavy.py and calculus.py; switches inside a single bytecode or inside numpy C code, and free-threaded execution, are out of reach",
            "float rules are judged to 1e-11 absolute on the moments (measured worst case on the pinned tree ~2e-14 up to n = 15) and 1e-13 relative against the cold answer",
            "a request that raised (invalid size, injected fault) imposes nothing on its own result; only later requests are judged",
        ],
        "expected_probes": ["two-threads-inside-same-fill", "async-fault-inside-fill", "async-fault-after-store", "async-fault-idle"],
    },
    "C04": {
        "budgets": {"quick": (6000, 240), "thorough": (400000, 3300)},
        "rule": ('one evaluation = one seeded history of 3-14 public Curve mutators (knot_insert, knot_remove, degree_increase/decrease, degree setter, knot_clean, degree_clean, clean; ~0-45% of steps carry an invalid request; SimPoint/ndarray value faults on the insertion/elevation paths) on a curve over exact rationals (or floats, tolerance mode), polynomial or rational, scalar or vector points; the abstract state is re-derived from the implementation before every step and only the steps owned by this property are judged: every knot_insert step: valid request must succeed, knot vector = sorted multiset union, same function (exact piecewise-polynomial / cross-multiplied rational comparison), weights present iff before, invalid request refused with ValueError, any refusal atomic; non-trivial = at least one successful transition AND one fired fault; distinct = distinct event-log digest'),
        "real": REAL_ALL,
        "stubs": ["SimPoint control-point types (full / minimal / nofloat / bounded profiles) and int64 ndarray points on the value seam",
                  "invalid requests generated from the statement's own failure list"],
        "assumptions": _COMMON_ASSUME + ['float mode compares at sample parameters with 1e-7 relative tolerance; structure exactly', 'when an environment fault of the point type fired during the call the must-succeed clause is waived; atomicity is still required'],
        "expected_probes": ['insert-outside', 'insert-excess-multiplicity', 'insert-at-value-zero', 'insert-at-existing-knot'],
    },
    "C05": {
        "budgets": {"quick": (4000, 240), "thorough": (250000, 3300)},
        "rule": ('one evaluation = one seeded history of 3-14 public Curve mutators (knot_insert, knot_remove, degree_increase/decrease, degree setter, knot_clean, degree_clean, clean; ~0-45% of steps carry an invalid request; SimPoint/ndarray value faults on the insertion/elevation paths) on a curve over exact rationals (or floats, tolerance mode), polynomial or rational, scalar or vector points; the abstract state is re-derived from the implementation before every step and only the steps owned by this property are judged: every knot_remove step: classified by the model as exactly removable (continuity analysis, or undo of the previous insertion) / not removable / absent / end knot; removable must succeed for every tolerance with zero deviation and undo restores the state identically; not removable is either refused with ValueError (unchanged) or accepted with exact integral of squared deviation within 2*tol*max(1,width); tolerance=None must succeed and interpolate the old curve at every remaining knot; non-trivial = at least one successful transition AND one fired fault; distinct = distinct event-log digest'),
        "real": REAL_ALL,
        "stubs": ["SimPoint control-point types (full / minimal / nofloat / bounded profiles) and int64 ndarray points on the value seam",
                  "invalid requests generated from the statement's own failure list"],
        "assumptions": _COMMON_ASSUME + ["rational curves: only 'undo of the previous insertion' is classified as exactly removable; other rational removals are judged as 'either' with a numerically estimated deviation (5% slack)", 'rational removal steps are limited to degree <= 2, <= 6 control points, two per run (exact rational least squares is otherwise too slow) - a size rule, not a timer', 'float mode: must-succeed only for tolerances default / 1e-3 / None (0 and 1e-12 are rounding-dependent)'],
        "expected_probes": ['undo-of-insertion', 'remove-exactly-removable', 'remove-not-removable', 'remove-absent', 'remove-end-or-illformed', 'removal-at-multiplicity-p+1'],
    },
    "C06": {
        "budgets": {"quick": (4000, 240), "thorough": (250000, 3300)},
        "rule": ('one evaluation = one seeded history of 3-14 public Curve mutators (knot_insert, knot_remove, degree_increase/decrease, degree setter, knot_clean, degree_clean, clean; ~0-45% of steps carry an invalid request; SimPoint/ndarray value faults on the insertion/elevation paths) on a curve over exact rationals (or floats, tolerance mode), polynomial or rational, scalar or vector points; the abstract state is re-derived from the implementation before every step and only the steps owned by this property are judged: every degree_increase / degree setter / degree_decrease step: elevation must succeed, multiplicities +t, same function; reduction classified by the model (representable at the lower degree on the target vector, or undo of the previous elevation): reducible must succeed exactly and undo restores the state identically; otherwise refusal with ValueError (unchanged) or success within the deviation bound; tolerance=None must succeed and keep the values at the remaining knots; invalid t refused with ValueError; non-trivial = at least one successful transition AND one fired fault; distinct = distinct event-log digest'),
        "real": REAL_ALL,
        "stubs": ["SimPoint control-point types (full / minimal / nofloat / bounded profiles) and int64 ndarray points on the value seam",
                  "invalid requests generated from the statement's own failure list"],
        "assumptions": _COMMON_ASSUME + ['rational reduction steps limited by the same size rule as C05', 'float mode must-succeed only for tolerances default / 1e-3 / None'],
        "expected_probes": ['undo-of-elevation', 'elevate-mixed-multiplicities', 'elevate-with-interior-knot-zero', 'reduce-inexpressible'],
    },
    "C14": {
        "budgets": {"quick": (4000, 240), "thorough": (250000, 3300)},
        "rule": ("one evaluation = one seeded history of 3-14 public Curve mutators (knot_insert, knot_remove, degree_increase/decrease, degree setter, knot_clean, degree_clean, clean; ~0-45% of steps carry an invalid request; SimPoint/ndarray value faults on the insertion/elevation paths) on a curve over exact rationals (or floats, tolerance mode), polynomial or rational, scalar or vector points; the abstract state is re-derived from the implementation before every step and only the steps owned by this property are judged: every knot_clean / degree_clean / clean step: function preserved (exactly for tolerance 0; within the accumulated tolerance otherwise), after clean() degree and knot vector equal the model's unique minimal representation, knot_clean leaves exactly the needed multiplicity at every (listed) knot, degree_clean reaches the true degree, an immediately repeated call changes nothing, and two differently refined twins of one function clean to identical knots and control points; non-trivial = at least one successful transition AND one fired fault; distinct = distinct event-log digest"),
        "real": REAL_ALL,
        "stubs": ["SimPoint control-point types (full / minimal / nofloat / bounded profiles) and int64 ndarray points on the value seam",
                  "invalid requests generated from the statement's own failure list"],
        "assumptions": _COMMON_ASSUME + ["minimality and idempotence are judged in exact arithmetic on polynomial curves only (float accept/refuse decisions near the tolerance are rounding dependent; the statement's minimality clause is about polynomial curves)", 'environment faults are disarmed while a composite cleaning loop runs (DESIGN section 2); cleaning is exercised with invalid tolerances as refused requests', 'twin expectation is asserted only while both twins still denote the common start function (otherwise dropped and counted under expectation_dropped)'],
        "expected_probes": ['clean-reached-minimal-form', 'clean-removed-something', 'twin-compared'],
    },
    "C15": {
        "budgets": {"quick": (8000, 240), "thorough": (300000, 3300)},
        "rule": ("one evaluation = one seeded history of 3-22 public Curve operations (all mutators incl. setters, update and the fitters; evaluation, split, "
                 "join, curve and scalar arithmetic, ==, copies, fraction, Derivate, Integrate, Projection, Intersection) on a world of 1-6 curves created under "
                 "seeded aliasing layouts (independent, same KnotVector object, same KnotVector and same point objects, copy, deepcopy), with one point profile per "
                 "run (Fraction / float scalars, object / float64 / int64 ndarrays, SimPoint full / minimal / nofloat / bounded / inplace); ~0-55% of steps carry an invalid "
                 "argument and value-seam / callable faults fire wherever the arithmetic meets an unsupported combination; after every step I1 consistency+evaluability, "
                 "I2 failure atomicity, I3 operand and I4 bystander non-interference, I5 caller data are checked; non-trivial = at least one successful transition AND one "
                 "fired fault; distinct = distinct event-log digest"),
        "real": REAL_ALL,
        "stubs": ["SimPoint control-point types and the per-run fault controller (sim/seams.py)", "user callables for fit_function / Integrate that raise at a seeded call",
                  "caller-side containers (lists, KnotVector objects) whose content is re-checked after every step"],
        "assumptions": _COMMON_ASSUME + [
            "faults are deterministic functions of the operands (DESIGN section 2): transient 'k-th call fails' faults and asynchronous faults are not injected here",
            "environment faults are disarmed while a composite cleaning loop (knot_clean / degree_clean / clean) runs; those are exercised with invalid arguments only",
            "invalid weights are generated only as a sign change or a zero at an end (the classes the library's root detector is specified for)",
            "there is no function-level oracle here (C04-C09): only that evaluation does not raise and that states are consistent / unchanged",
            "Projection is exercised on float polylines only (its Newton search has no step bound), Intersection on small Bezier/spline pairs",
        ],
        "expected_probes": ["layout-shared-kv", "layout-shared-all", "layout-copy", "layout-deepcopy", "refusal-in-aliased-world"],
    },
}
