"""Seeded scheduler for simulated caller threads and the asynchronous-fault injector.

Real threads, exactly one runnable at a time (baton = one semaphore per thread).  A sys.settrace
local trace function on frames of the target files turns every 'line' event into a decision point
at which the run's PRNG may hand the baton to another live thread, and at which the plan's
asynchronous fault (an exception arriving at the k-th line of a chosen request) is raised.
Nothing here reads a clock or draws randomness outside the PRNG owned by the baton holder.
"""
import random
import sys
import threading


class InjectedAsync(BaseException):
    """Asynchronous failure of a request (KeyboardInterrupt / MemoryError-like)."""


class Scheduler:
    def __init__(self, nthreads, yield_prob, seed, target_suffixes, fill_functions, table_lookup):
        self.n = nthreads
        self.yield_prob = yield_prob
        self.rng = random.Random(seed)
        self.sems = [threading.Semaphore(0) for _ in range(nthreads)]
        self.alive = [False] * nthreads
        self.points = 0
        self.switches = 0
        self.signature = []
        self.target_suffixes = tuple(target_suffixes)
        self.fill_functions = fill_functions      # co_name -> family tag
        self.table_lookup = table_lookup          # (family tag, n) -> bool (already stored?)
        self.filling = [dict() for _ in range(nthreads)]   # tid -> {frame id: (fam, n)}
        self.same_fill_overlaps = 0
        self.async_spec = None                    # (tid, remaining line events)
        self.async_fired = None                   # description of where it landed
        self.line_events = [0] * nthreads
        self._code_cache = {}
        self._tids = {}

    # ---- tracing ------------------------------------------------------
    def _is_target(self, code):
        r = self._code_cache.get(code)
        if r is None:
            r = code.co_filename.endswith(self.target_suffixes)
            self._code_cache[code] = r
        return r

    def global_trace(self, frame, event, arg):
        if event != "call":
            return None
        code = frame.f_code
        if not self._is_target(code):
            return None
        tid = self._tids.get(threading.get_ident())
        if tid is None:
            return None
        fam = self.fill_functions.get(code.co_qualname)
        if fam is not None:
            n = frame.f_locals.get("npts")
            try:
                stored = self.table_lookup(fam, n)
            except Exception:  # noqa
                stored = True
            if not stored:
                self.filling[tid][id(frame)] = (fam, n)
        return self.local_trace

    def local_trace(self, frame, event, arg):
        tid = self._tids.get(threading.get_ident())
        if tid is None:
            return None
        if event == "line":
            self.line_events[tid] += 1
            spec = self.async_spec
            if spec is not None and spec[0] == tid:
                if spec[1] <= 1:
                    self.async_spec = None
                    fills = list(self.filling[tid].values())
                    where = "idle"
                    if fills:
                        fam, n = fills[-1]
                        where = "after-store" if self.table_lookup(fam, n) else "inside-fill"
                    self.async_fired = (frame.f_code.co_name, frame.f_lineno - frame.f_code.co_firstlineno, where)
                    self.filling[tid].clear()
                    raise InjectedAsync("async fault at %s+%d" % (frame.f_code.co_name, frame.f_lineno - frame.f_code.co_firstlineno))
                self.async_spec = (tid, spec[1] - 1)
            self.point(tid, frame)
        elif event == "return":
            self.filling[tid].pop(id(frame), None)
        return self.local_trace

    # ---- scheduling ---------------------------------------------------
    def point(self, tid, frame):
        self.points += 1
        if self.n == 1 or self.yield_prob <= 0:
            return
        if self.rng.random() >= self.yield_prob:
            return
        others = [t for t in range(self.n) if t != tid and self.alive[t]]
        if not others:
            return
        nxt = others[self.rng.randrange(len(others))]
        self.switches += 1
        mine = set(self.filling[tid].values())
        if mine and mine & set(self.filling[nxt].values()):
            self.same_fill_overlaps += 1
        if len(self.signature) < 400:
            self.signature.append((tid, frame.f_code.co_name, frame.f_lineno - frame.f_code.co_firstlineno, nxt))
        self.sems[nxt].release()
        self.sems[tid].acquire()

    def thread_body(self, tid, work):
        self.sems[tid].acquire()
        self._tids[threading.get_ident()] = tid
        try:
            work(tid)
        finally:
            sys.settrace(None)
            self.alive[tid] = False
            others = [t for t in range(self.n) if self.alive[t]]
            if others:
                nxt = others[self.rng.randrange(len(others))]
                self.sems[nxt].release()

    def arm(self):
        """(Re-)install tracing for the calling thread; tracing is lost after an injected exception."""
        sys.settrace(self.global_trace)

    def run(self, work, timeout=500.0):
        threads = []
        errors = []

        def wrap(tid):
            try:
                self.thread_body(tid, work)
            except BaseException as e:  # noqa
                errors.append((tid, e))

        for tid in range(self.n):
            self.alive[tid] = True
            th = threading.Thread(target=wrap, args=(tid,), name="simcaller-%d" % tid, daemon=True)
            threads.append(th)
        for th in threads:
            th.start()
        first = self.rng.randrange(self.n)
        self.sems[first].release()
        for th in threads:
            th.join(timeout)
            if th.is_alive():
                raise RuntimeError("simulated caller thread did not finish (deadlock or hang)")
        if errors:
            raise errors[0][1]
