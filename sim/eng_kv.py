"""KV engine: a pool of KnotVector objects driven by seeded operation-and-fault histories.

Decides C03 (every reachable KnotVector is well formed, queries agree, refusals are atomic) and
C18 (generators under a scripted RNG; shift / scale / normalize as state transitions).

The plan is open-loop: arguments are relative selectors that the executor resolves against the
object's current element list, so plans stay meaningful when the shrinker deletes steps.
"""
import copy
import math
import random
import signal
import time
from fractions import Fraction

from . import model as M
from .core import HarnessError, import_library
from .core import Violation as core_Violation

NSLOTS = 3
STEP_TIME_LIMIT_S = 30


class _StepTimeout(BaseException):
    pass


def _raise_step_timeout(signum, frame):
    raise _StepTimeout()

BAD = {"str": "abc", "none": None, "list": [0, 1], "dict": {1: 1}, "cplx": 1j}


# --------------------------------------------------------------------------
# environment stubs (value seam, iterables, RNG)
# --------------------------------------------------------------------------
class InjectedFault(Exception):
    """Raised by environment stubs (never by the library)."""


class SimScalar:
    """A user number type usable as shift/scale argument; raises as a pure function of its operands:
    OverflowError once |result| exceeds `bound` (a bounded, fixed-precision type)."""

    def __init__(self, value, bound, ctx=None):
        self.v = Fraction(value)
        self.bound = Fraction(bound)
        self.ctx = ctx
        self.calls = 0

    def _out(self, r):
        self.calls += 1
        if abs(r) > self.bound:
            if self.ctx is not None:
                self.ctx.fault("scalar-overflow")
            raise OverflowError("SimScalar bound exceeded")
        return r

    def __float__(self):
        return float(self.v)

    def __neg__(self):
        return SimScalar(-self.v, self.bound, self.ctx)

    def __radd__(self, other):
        return self._out(M.Fr(other) + self.v)

    def __add__(self, other):
        return self._out(M.Fr(other) + self.v)

    def __rmul__(self, other):
        return self._out(M.Fr(other) * self.v)

    def __mul__(self, other):
        return self._out(M.Fr(other) * self.v)

    def __gt__(self, other):
        return self.v > other

    def __lt__(self, other):
        return self.v < other

    def __rtruediv__(self, other):
        return SimScalar(Fraction(other) / self.v, self.bound, self.ctx)


class FailingIterable:
    """Yields the given items, then raises (a generator-backed node argument that dies midway)."""

    def __init__(self, items, after, ctx):
        self.items, self.after, self.ctx = list(items), after, ctx

    def __iter__(self):
        for i, x in enumerate(self.items):
            if i == self.after:
                break
            yield x
        self.ctx.fault("iterable-raises")
        raise InjectedFault("node iterable failed after %d items" % self.after)


class ScriptedRandint:
    """Replacement for numpy.random.randint during one generator call: returns the plan's draws,
    mapped onto whatever [low, high) the library asked for (so the real contract of the call is kept)."""

    def __init__(self, draws, np):
        self.draws, self.np, self.calls = draws, np, []

    def __call__(self, low, high=None, size=None, dtype=int):
        if high is None:
            low, high = 0, low
        n = 1 if size is None else int(size)
        out = []
        for i in range(n):
            d = self.draws[i % len(self.draws)]
            if d == "lo":
                v = low
            elif d == "hi":
                v = high - 1
            else:
                v = low + int(M.dec(d) * (high - low))
                v = min(max(v, low), high - 1)
            out.append(v)
        self.calls.append((low, high, n))
        if size is None:
            return out[0]
        return self.np.array(out, dtype="int64")


# --------------------------------------------------------------------------
# plan generation
# --------------------------------------------------------------------------
TS = ["1/2", "1/3", "2/3", "1/4", "3/4", "1/5", "5/8", "7/16"]


def _rand_value(rng, lo=-3, hi=4, den=(1, 2, 3, 4, 6, 8, 12, 16, 24, 48)):
    d = rng.choice(den)
    n = rng.randint(lo * d, hi * d)
    return Fraction(n, d)


def _gen_valid_literal(rng, cls, maxp=4, maxint=4):
    p = rng.randint(0, maxp)
    nint = rng.randint(0, maxint)
    if cls == "float":
        vals = sorted(set(Fraction(rng.randint(-192, 256), 64) for _ in range(nint + 2)))
    elif cls == "int":
        vals = sorted(set(Fraction(rng.randint(-6, 9)) for _ in range(nint + 2)))
    else:
        vals = sorted(set(_rand_value(rng) for _ in range(nint + 2)))
    while len(vals) < 2:
        vals = sorted(set(vals + [vals[0] + 1]))
    if rng.random() < 0.15:  # make sure zero and negative knots are common
        vals = sorted(set(vals + [Fraction(0)]))
    mults = [p + 1] + [rng.randint(1, p + 1) for _ in vals[1:-1]] + [p + 1]
    L = []
    for v, m in zip(vals, mults):
        L += [M.enc(v)] * m
    return p, L


def _gen_literal(rng, cls, invalid_rate):
    p, L = _gen_valid_literal(rng, cls)
    lit = {"kind": "valid", "items": L}
    if rng.random() < 0.2:
        lit["deg"] = p
    if rng.random() >= invalid_rate:
        return lit
    kind = rng.choice(["unsorted", "short", "constant", "excess", "unequal-ends", "tail", "head",
                       "nonnumeric", "wrongdeg", "notiter", "tail2"])
    items = list(L)
    if kind == "unsorted":
        if len(set(items)) >= 2:
            i = rng.randrange(len(items))
            j = rng.randrange(len(items))
            items[i], items[j] = items[j], items[i]
    elif kind == "short":
        items = items[: rng.randint(0, 1)]
    elif kind == "constant":
        items = [items[0]] * rng.randint(2, 6)
    elif kind == "excess":
        pos = p + 1
        v = M.enc((M.dec(items[0]) + M.dec(items[-1])) / 2)
        items = items[:pos] + [v] * (p + 2) + items[pos:]
        items = [M.enc(x) for x in sorted(M.dec(y) for y in items)]
    elif kind == "unequal-ends":
        if rng.random() < 0.5:
            items = items[1:]
        else:
            items = items[:-1]
    elif kind == "tail":
        items = items + [M.enc(M.dec(items[-1]) + rng.randint(1, 2))]
    elif kind == "tail2":
        items = items + [M.enc(M.dec(items[-1]) + 1)] * rng.randint(1, p + 1)
    elif kind == "head":
        items = [M.enc(M.dec(items[0]) - rng.randint(1, 2))] + items
    elif kind == "nonnumeric":
        items[rng.randrange(len(items))] = "bad:" + rng.choice(["str", "none", "list"])
    elif kind == "wrongdeg":
        lit["deg"] = p + rng.choice([-1, 1, 2])
    elif kind == "notiter":
        return {"kind": "notiter", "items": rng.choice(["bad:none", "5", "bad:dict"])}
    lit["kind"] = kind
    lit["items"] = items
    return lit


def _gen_nodes(rng, nmax=3, bad_rate=0.0):
    out = []
    for _ in range(rng.randint(1, nmax)):
        r = rng.random()
        if r < bad_rate:
            out.append(["bad", rng.choice(["str", "none", "list"])])
        elif r < 0.45:
            out.append(["knot", rng.randrange(8)])
        elif r < 0.55:
            out.append(["iknot", rng.randrange(8)])
        else:
            out.append(["mid", rng.randrange(8), rng.choice(TS)])
    if rng.random() < 0.3 and out:
        out.append(list(out[0]))  # repeated node
    return out


def _gen_draws(rng, n):
    style = rng.choice(["uniform", "uniform", "uniform", "lo", "hi", "equal", "d7", "small", "mixed"])
    if style == "lo":
        return ["lo"]
    if style == "hi":
        return ["hi"]
    if style == "equal":
        return [M.enc(Fraction(rng.randrange(999), 999))]
    if style == "d7":  # totals such as 49 whose reciprocal does not round-trip in binary floating point
        tot = rng.choice([49, 98, 103, 107, 161, 187, 196, 197])
        parts = []
        rest = tot
        for i in range(n - 1):
            take = rng.randint(1, max(1, rest - (n - 1 - i)))
            parts.append(take)
            rest -= take
        parts.append(max(1, rest))
        return [M.enc(Fraction(x - 1, 999) + Fraction(1, 3996)) for x in parts]
    if style == "small":
        return [M.enc(Fraction(rng.randrange(5), 999) + Fraction(1, 3996)) for _ in range(n)]
    if style == "mixed":
        return [rng.choice(["lo", "hi", M.enc(Fraction(rng.randrange(999), 999))]) for _ in range(n)]
    return [M.enc(Fraction(rng.randrange(999), 999) + Fraction(1, 3996)) for _ in range(n)]


def _gen_gen(rng, fault_rate, big=False):
    g = rng.choice(["bezier", "integer", "uniform", "random", "random", "random", "weight"])
    p = rng.randint(0, 6 if big else 4)
    n = p + 1 + rng.randint(0, 60 if (big and rng.random() < 0.3) else 6)
    cls = rng.choice(["int", "float", "frac"])
    op = {"op": "gen", "g": g, "p": p, "n": n, "cls": cls}
    if g == "random":
        op["cls"] = rng.choice(["float", "frac", "float"])
        if rng.random() < 0.15:
            op["rng"] = {"mode": "real", "seed": rng.randrange(2 ** 31)}
        else:
            op["rng"] = {"mode": "script", "draws": _gen_draws(rng, n - p)}
    if g == "weight":
        k = rng.randint(1, 6)
        if cls == "float":
            ws = [Fraction(rng.randint(1, 256), 64) for _ in range(k)]
        elif cls == "int":
            ws = [Fraction(rng.randint(1, 9)) for _ in range(k)]
        else:
            ws = [Fraction(rng.randint(1, 40), rng.choice([1, 2, 3, 5, 7, 12])) for _ in range(k)]
        op["ws"] = [M.enc(w) for w in ws]
        if rng.random() < 0.35 and k >= 2:
            # a weight vector may mix number classes (first an int, later fractions ...): the spacing must still be w
            op["wcls"] = [rng.choice(["int", "frac", "frac", "float"]) for _ in range(k)]
            ws2 = []
            for w, c in zip(ws, op["wcls"]):
                if c == "int":
                    w = Fraction(max(1, round(w)))
                elif c == "float":
                    w = Fraction(max(1, round(w * 64)), 64)
                ws2.append(w)
            op["ws"] = [M.enc(w) for w in ws2]
    if rng.random() < fault_rate:
        op["invalid"] = rng.choice(["p-neg", "n-le-p", "p-float", "n-str", "p-none"])
    return op


def gen_plan(prop, seed, tier):
    rng = random.Random(seed)
    cls = rng.choice(["int", "frac", "frac", "float"])
    nops = rng.randint(3, 25 if tier == "thorough" else 16)
    fault_rate = rng.choice([0.0, 0.2, 0.35, 0.5])
    cfg = {"cls": cls, "fault_rate": fault_rate, "mode": prop}
    ops = []
    # initial world
    for s in range(rng.randint(1, NSLOTS)):
        if rng.random() < (0.6 if prop == "C18" else 0.3):
            o = _gen_gen(rng, 0.0, big=(prop == "C18"))
            o["dst"] = s
            ops.append(o)
        else:
            ops.append({"op": "new", "dst": s, "lit": _gen_literal(rng, cls, 0.0)})
    if prop == "C18":
        kinds = (["gen"] * 8 + ["shift"] * 5 + ["scale"] * 5 + ["normalize"] * 5 + ["insert", "remove", "degree",
                 "convert", "copy", "new", "query"])
    else:
        kinds = (["insert"] * 5 + ["remove"] * 5 + ["shift"] * 2 + ["scale"] * 2 + ["normalize", "convert",
                 "convert"] + ["degree"] * 3 + ["ior", "iand", "binop", "binop", "split", "split", "copy", "alias",
                 "new", "new", "gen"] + ["query"] * 3)
    for _ in range(nops):
        k = rng.choice(kinds)
        t = rng.randrange(NSLOTS)
        dst = rng.randrange(NSLOTS)
        faulty = rng.random() < fault_rate
        if k == "insert":
            op = {"op": "insert", "t": t, "via": rng.choice(["method", "iadd"]),
                  "nodes": _gen_nodes(rng, 3, 0.15 if faulty else 0.0)}
            if faulty:
                r = rng.random()
                if r < 0.4:
                    op["nodes"].append(["out", rng.choice(["lo", "hi"]), rng.choice(["1", "1/2", "3", "1/48"])])
                elif r < 0.6:
                    op["nodes"] = [["knot", rng.randrange(8)]] * rng.randint(2, 6)
                elif r < 0.75:
                    op["nodes"] = [["end", rng.choice(["lo", "hi"])]]
                elif r < 0.85:
                    op["iterfail"] = rng.randint(0, 2)
                elif r < 0.93:
                    op["longiter"] = rng.randint(33, 70)     # a one-shot generator that yields many valid nodes, then raises
        elif k == "remove":
            op = {"op": "remove", "t": t, "via": rng.choice(["method", "isub"]),
                  "nodes": [["iknot", rng.randrange(8)] for _ in range(rng.randint(1, 3))]}
            if faulty:
                r = rng.random()
                if r < 0.3:
                    op["nodes"].append(["mid", rng.randrange(8), rng.choice(TS)])  # absent
                elif r < 0.5:
                    op["nodes"] = [["end", rng.choice(["lo", "hi"])]] * rng.randint(1, 2)
                elif r < 0.65:
                    op["nodes"] = [["iknot", rng.randrange(8)]] * rng.randint(3, 7)
                elif r < 0.75:
                    op["nodes"].append(["bad", rng.choice(["str", "none"])])
                elif r < 0.85:
                    op["nodes"] = [["end", "lo"]] * rng.randint(1, 5) + [["end", "hi"]] * rng.randint(0, 5)
                elif r < 0.95:
                    op["iterfail"] = rng.randint(0, 2)
                else:
                    op["nodes"].append(["out", rng.choice(["lo", "hi"]), "1"])
        elif k == "shift":
            op = {"op": "shift", "t": t, "via": rng.choice(["method", "iadd", "isub"]),
                  "a": M.enc(Fraction(rng.randint(-128, 128), rng.choice([1, 2, 4, 8, 16, 64])))}
            if cls == "frac" and rng.random() < 0.5:
                op["a"] = M.enc(_rand_value(rng))
            if cls != "float" and rng.random() < 0.08:
                # a translation that dwarfs the knot spacing (time stamps, large offsets): every clause is translation invariant
                op["a"] = M.enc(Fraction(rng.choice([1700000000, -100000000000, 4294967296, 10 ** 12])))
            if faulty:
                r = rng.random()
                if r < 0.5:
                    op["a"] = "bad:" + rng.choice(["str", "none", "cplx"])
                else:
                    op["sim"] = M.enc(Fraction(rng.randint(1, 4)))
        elif k == "scale":
            op = {"op": "scale", "t": t, "via": rng.choice(["method", "imul", "idiv"]),
                  "s": M.enc(Fraction(2) ** rng.randint(-2, 2))}
            if cls == "frac" and rng.random() < 0.6:
                op["s"] = M.enc(Fraction(rng.randint(1, 12), rng.randint(1, 12)))
            if prop == "C18" and rng.random() < 0.2:
                # strong down-scaling: distinct knots come closer than the library's 1e-6 / 1e-9 merge tolerances; the affine
                # maps must still keep every knot and every multiplicity (judged on the element list alone)
                op["s"] = M.enc(Fraction(1, rng.choice([1024, 4096, 65536, 1048576])))
                op["via"] = rng.choice(["method", "imul"])
            if faulty:
                r = rng.random()
                if r < 0.4:
                    op["s"] = M.enc(Fraction(rng.choice([0, -1, -2, 0])))
                elif r < 0.7:
                    op["s"] = "bad:" + rng.choice(["str", "none", "list"])
                else:
                    op["sim"] = M.enc(Fraction(rng.randint(1, 6)))
        elif k == "normalize":
            op = {"op": "normalize", "t": t}
        elif k == "convert":
            op = {"op": "convert", "t": t, "cls": rng.choice(["int", "frac", "float"])}
            if faulty and rng.random() < 0.3:
                op["cls"] = "str"
        elif k == "degree":
            op = {"op": "degree", "t": t, "delta": rng.choice([1, 1, 2, -1, -1, -2, 3, 0])}
            if faulty:
                r = rng.random()
                if r < 0.4:
                    op["delta"] = rng.choice([-3, -4, -6])
                elif r < 0.6:
                    op["abs"] = rng.choice(["bad:str", "bad:none", "-1", "-2"])
        elif k in ("ior", "iand"):
            op = {"op": k, "t": t, "o": rng.randrange(NSLOTS)}
            if rng.random() < 0.5:
                op["refine"] = {"nodes": _gen_nodes(rng, 3), "delta": rng.choice([0, 0, 1, 2])}
            if faulty and rng.random() < 0.5:
                op["otherlit"] = _gen_literal(rng, cls, 0.0)
        elif k == "binop":
            kind = rng.choice(["or", "and", "add", "sub", "mul", "rmul", "div", "addl", "subl"])
            op = {"op": "binop", "kind": kind, "t": t, "dst": dst, "o": rng.randrange(NSLOTS),
                  "a": M.enc(Fraction(2) ** rng.randint(-2, 2) if kind in ("mul", "rmul", "div")
                             else Fraction(rng.randint(-64, 64), 16)),
                  "nodes": _gen_nodes(rng, 2) if kind == "addl" else [["iknot", rng.randrange(8)]]}
            if faulty:
                r = rng.random()
                if r < 0.3 and kind in ("mul", "rmul", "div"):
                    op["a"] = M.enc(Fraction(rng.choice([0, -1])))
                elif r < 0.5:
                    op["a"] = "bad:" + rng.choice(["str", "none"])
                elif r < 0.7 and kind == "addl":
                    op["nodes"].append(["out", rng.choice(["lo", "hi"]), "1"])
                elif r < 0.9 and kind == "subl":
                    op["nodes"] = [["mid", rng.randrange(8), "1/2"]]
        elif k == "split":
            op = {"op": "split", "t": t, "dst": dst, "pick": rng.randrange(6), "nodes": _gen_nodes(rng, 3)}
            if faulty and rng.random() < 0.5:
                op["nodes"].append(["out", rng.choice(["lo", "hi"]), "1"])
        elif k == "copy":
            op = {"op": "copy", "t": t, "dst": dst, "deep": rng.random() < 0.5}
        elif k == "alias":
            op = {"op": "alias", "t": t, "dst": dst}
        elif k == "new":
            op = {"op": "new", "dst": dst, "lit": _gen_literal(rng, cls, 0.7 if faulty else 0.1)}
        elif k == "gen":
            op = _gen_gen(rng, fault_rate if faulty else 0.0, big=(prop == "C18"))
            op["dst"] = dst
        else:  # query
            op = {"op": "query", "t": t, "what": rng.choice(["span", "mult", "valid"]),
                  "seq": rng.random() < 0.4, "nodes": _gen_nodes(rng, 5), "form": rng.choice(["list", "tuple", "ndarray", "ndarray"])}
            if faulty:
                r = rng.random()
                if r < 0.6:
                    op["nodes"].append(["out", rng.choice(["lo", "hi"]), rng.choice(["1", "1/1000", "5"])])
                else:
                    op["nodes"].append(["bad", rng.choice(["str", "none"])])
        ops.append(op)
    # a self-contained closing step (drawn from a generator of its own: every other decision of the plan is unchanged):
    # normalize() of a fresh int / float vector whose last span is far below one ulp of the whole interval, so that the
    # float image cannot keep the multiplicities - it has to be refused (vector unchanged) or come out well-formed
    rng2 = random.Random((seed * 0x9E3779B97F4A7C15 + 0x7654321) % (1 << 64))
    if prop == "C03" and rng2.random() < 0.25:
        ops.append({"op": "normalize_wide", "form": rng2.choice(["int-right", "int-right", "float-adjacent", "int-left"]),
                    "p": rng2.randint(0, 3), "m": rng2.randint(1, 4), "H": str(rng2.choice([10 ** 17, 2 ** 60, 10 ** 20 + 3, 3 * 10 ** 18]))})
    return {"property": prop, "engine": "kv", "seed": seed, "tier": tier, "config": cfg, "ops": ops}


# --------------------------------------------------------------------------
# executor
# --------------------------------------------------------------------------
class KVEngine:
    name = "kv"

    def setup(self):
        self.lib = import_library()
        import numpy
        self.np = numpy
        self.KnotVector = self.lib.KnotVector
        self.Gen = self.lib.GeneratorKnotVector
        self.Function = self.lib.Function
        self._orig_randint = numpy.random.randint

    def cleanup(self):
        self.np.random.randint = self._orig_randint

    gen_plan = staticmethod(gen_plan)

    # ----- helpers -------------------------------------------------------
    def mk(self, frac, cls):
        if cls == "float":
            return float(frac)
        if cls == "int" and frac.denominator == 1:
            return int(frac)
        return Fraction(frac)

    def decode_item(self, s, cls):
        if isinstance(s, str) and s.startswith("bad:"):
            return BAD[s[4:]]
        return self.mk(M.dec(s), cls)

    @staticmethod
    def snapshot(kv):
        """Library-independent freeze of a KnotVector: element types and exact values, degree, npts."""
        items = []
        for x in list(kv):
            try:
                items.append((type(x).__name__, M.enc(M.Fr(x))))
            except (TypeError, ValueError):
                items.append((type(x).__name__, repr(x)))
        return (tuple(items), kv.degree, kv.npts)

    @staticmethod
    def exact_list(kv):
        return [M.Fr(x) for x in list(kv)]

    def cls_of(self, kv, default):
        L = list(kv)
        if any(isinstance(x, float) for x in L):
            return "float"
        if default == "int" and all(isinstance(x, int) for x in L):
            return "int"
        return "frac"

    def resolve(self, kv, sel, cls):
        """Resolve a node selector against the current element list. Returns (value, tag)."""
        L = list(kv)
        ks = []
        for x in L:
            if not ks or ks[-1] != x:
                ks.append(x)
        kind = sel[0]
        if kind == "bad":
            return BAD[sel[1]], "bad"
        if kind == "knot":
            return ks[sel[1] % len(ks)], "knot"
        if kind == "end":
            return (ks[0] if sel[1] == "lo" else ks[-1]), "end"
        if kind == "iknot":
            if len(ks) > 2:
                return ks[1 + sel[1] % (len(ks) - 2)], "iknot"
            kind, sel = "mid", ["mid", sel[1], "1/2"]
        if kind == "mid":
            j = sel[1] % (len(ks) - 1)
            a, b = ks[j], ks[j + 1]
            t = M.dec(sel[2])
            if cls == "float":
                v = float(a) + (float(b) - float(a)) * float(t)
                if min(abs(v - float(k)) for k in ks) < 1e-3:
                    return None, "skip"
                return v, "mid"
            v = M.Fr(a) + (M.Fr(b) - M.Fr(a)) * t
            return self.mk(v, cls), "mid"
        if kind == "out":
            d = M.dec(sel[2])
            v = M.Fr(ks[0]) - d if sel[1] == "lo" else M.Fr(ks[-1]) + d
            return self.mk(v, cls), "out"
        raise HarnessError("unknown selector %r" % (sel,))

    # ----- invariants ----------------------------------------------------
    def check_vector(self, ctx, kv, judge, where):
        """(i) well-formedness, (ii) queries agree with the element list.  Returns exact list or None."""
        raw = list(kv)
        try:
            L = [M.Fr(x) for x in raw]
        except (TypeError, ValueError):
            if judge:
                ctx.fail("illformed", where, "non-numeric element in %r" % (raw,))
            return None
        p = M.wellformed(L)
        if judge:
            ctx.oracle("wellformed")
        if p is None:
            if judge:
                ctx.fail("illformed", where, "reachable vector %s is not a clamped knot vector" % [M.enc(x) for x in L])
            return None
        if not judge:
            return L
        ctx.oracle("queries")
        npts = len(L) - p - 1
        isf = any(isinstance(x, float) for x in raw)
        if kv.degree != p or kv.npts != npts or len(kv) != len(L):
            ctx.fail("query-mismatch", "degree-npts", "degree/npts/len = %r/%r/%r, element list says %d/%d/%d"
                     % (kv.degree, kv.npts, len(kv), p, npts, len(L)))
        ks = M.kv_knots(L)
        got = [M.Fr(x) for x in kv.knots]
        if got != ks:
            ctx.fail("query-mismatch", "knots", "knots=%s expected %s" % ([M.enc(x) for x in got], [M.enc(x) for x in ks]))
        lim = tuple(M.Fr(x) for x in kv.limits)
        if lim != (L[0], L[-1]):
            ctx.fail("query-mismatch", "limits", "limits=%r" % (lim,))
        # probes: every knot (taken from the list), span midpoints, outside points
        probes = []
        seen = set()
        for x, fx in zip(raw, L):
            if fx not in seen:
                seen.add(fx)
                probes.append((x, fx))
        for a, b in zip(ks, ks[1:]):
            m = (a + b) / 2
            if isf:
                mf = float(m)
                if min(abs(mf - float(k)) for k in ks) < 1e-4:
                    continue
                probes.append((mf, M.Fr(mf)))
            else:
                probes.append((m, m))
        for node, fx in probes:
            try:
                s = kv.span(node)
                mu = kv.mult(node)
                va = kv.valid([node])
            except Exception as e:  # noqa
                ctx.fail("query-mismatch", "raises-inside", "span/mult/valid(%s) raised %s" % (M.enc(fx), type(e).__name__))
                continue
            if s != M.kv_span(L, fx) or mu != M.kv_mult(L, fx) or va is not True:
                ctx.fail("query-mismatch", "span-mult", "at %s: span=%r mult=%r valid=%r, expected %d/%d/True"
                         % (M.enc(fx), s, mu, va, M.kv_span(L, fx), M.kv_mult(L, fx)))
        width = L[-1] - L[0]
        eps = Fraction(1, 10 ** 20)
        # just inside the ends (exact rational nodes, whatever the knot class): valid, first / last span
        for fx, want_span in ((L[0] + eps, M.kv_span(L, L[0])), (L[-1] - eps, M.kv_span(L, L[-1]))):
            try:
                ok = kv.valid([fx]) is True and kv.span(fx) == want_span   # (mult() merges within 1e-9 by design)
            except Exception as e:  # noqa
                ok = False
            if not ok:
                ctx.fail("query-mismatch", "just-inside", "a node 1e-20 inside the end %s is not answered like an interior point" % M.enc(fx))
        outside = [(L[0] - width / 3 - 1, False), (L[-1] + width / 7 + Fraction(1, 2), False), (L[0] - eps, True), (L[-1] + eps, True)]
        for fx, exactnode in outside:
            node = fx if (exactnode or not isf) else float(fx)
            # valid() first: an implementation that wrongly accepts the node may never return from span()
            try:
                if kv.valid([node]) is not False:
                    ctx.fail("query-mismatch", "outside-valid", "valid([%s]) is not False for a node outside [%s, %s]" % (M.enc(fx), M.enc(L[0]), M.enc(L[-1])))
            except core_Violation:
                raise
            except Exception as e:  # noqa
                ctx.fail("query-mismatch", "outside-valid", "valid raised %s" % type(e).__name__)
            for fn in (kv.span, kv.mult):
                try:
                    r = fn(node)
                except ValueError:
                    continue
                except Exception as e:  # noqa
                    ctx.fail("query-mismatch", "outside-wrong-exception", "%s(%s) raised %s, not ValueError"
                             % (fn.__name__, M.enc(fx), type(e).__name__))
                    continue
                ctx.fail("query-mismatch", "outside-accepted", "%s(%s) returned %r for a node outside" % (fn.__name__, M.enc(fx), r))
        # nested sequences: valid() answers for the whole tree of nodes (>= 9 sub-sequences, one bad node hidden inside)
        inside = [x for x, _ in probes]
        nested = [[inside[i % len(inside)], inside[(i + 1) % len(inside)]] for i in range(11)]
        bad_node = (L[-1] + 3) if not isf else float(L[-1] + 3)
        hidden = [list(pair) for pair in nested]
        hidden[5] = [hidden[5][0], bad_node]
        try:
            ok_nested = kv.valid(nested)
            bad_nested = kv.valid(hidden)
            bad_tuple = kv.valid(tuple(tuple(pair) for pair in hidden))
        except Exception as e:  # noqa
            ctx.fail("query-mismatch", "nested-raises", "valid(nested sequence) raised %s" % type(e).__name__)
            ok_nested, bad_nested, bad_tuple = True, False, False
        if ok_nested is not True or bad_nested is not False or bad_tuple is not False:
            ctx.fail("query-mismatch", "nested-valid", "valid() of 11 node pairs: all inside -> %r (expected True); one node outside hidden in the 6th pair -> %r / %r (expected False)"
                     % (ok_nested, bad_nested, bad_tuple))
        # sequence form and indexing
        seq = [x for x, _ in probes[:4]]
        try:
            if tuple(kv.span(seq)) != tuple(M.kv_span(L, M.Fr(x)) for x in seq) or \
               tuple(kv.mult(seq)) != tuple(M.kv_mult(L, M.Fr(x)) for x in seq):
                ctx.fail("query-mismatch", "sequence", "span/mult of a sequence disagree with the element list")
        except Exception as e:  # noqa
            ctx.fail("query-mismatch", "sequence", "span/mult of a sequence raised %s" % type(e).__name__)
        if [M.Fr(kv[i]) for i in range(len(L))] != L:
            ctx.fail("query-mismatch", "indexing", "kv[i] disagrees with iteration")
        # == must agree with the element list: equal to a copy of its own elements, different from a vector with the
        # same degree, npts and distinct knots but another multiplicity pattern (one unit moved between interior knots)
        ctx.oracle("equality")
        try:
            same = (kv == list(raw))
            mults = M.kv_mults(L)
            other = None
            for i in range(1, len(mults) - 1):
                for j in range(1, len(mults) - 1):
                    if i != j and mults[i][1] >= 2 and mults[j][1] <= p and other is None:
                        pattern = [m for _, m in mults]
                        pattern[i] -= 1
                        pattern[j] += 1
                        other = []
                        seen_first = {}
                        for x in raw:
                            seen_first.setdefault(M.Fr(x), x)
                        for (k, _), m in zip(mults, pattern):
                            other += [seen_first[k]] * m
            differs = None if other is None else (kv == other)
        except Exception as e:  # noqa
            ctx.fail("query-mismatch", "equality-raises", "comparing a KnotVector with a list raised %s" % type(e).__name__)
            return L
        if same is not True:
            ctx.fail("query-mismatch", "equality", "kv == list(kv) is %r" % (same,))
        if differs is not None and differs is not False:
            ctx.fail("query-mismatch", "equality", "kv == (same knots, other multiplicities) is %r: %s vs %s"
                     % (differs, [m for _, m in mults], "one unit of multiplicity moved"))
        return L

    # ----- one run -------------------------------------------------------
    def run(self, plan, ctx):
        cfg = plan["config"]
        mode = cfg["mode"]
        J03 = mode == "C03"
        J18 = mode == "C18"
        pool = [None] * NSLOTS
        self.pool = pool
        for step, op in enumerate(plan["ops"]):
            ctx.step = step
            kind = op["op"]
            ctx.count("op:" + kind)
            before = [None if kv is None else self.snapshot(kv) for kv in pool]
            handler = getattr(self, "op_" + kind)
            # every KnotVector operation on these small vectors takes micro- to milliseconds; one that has not returned
            # after STEP_TIME_LIMIT_S seconds (e.g. a binary search without a terminating interval) is reported as
            # a violation of "queries agree with the element list" rather than left to hang the batch
            old_handler = signal.signal(signal.SIGALRM, _raise_step_timeout)
            old_timer = signal.setitimer(signal.ITIMER_REAL, STEP_TIME_LIMIT_S)
            t_start = time.time()
            try:
                outcome = handler(op, ctx, cfg, J03, J18)
                # pool-wide query checks of this step run under the same limit (see below)
                self._post_step(ctx, pool, before, outcome, kind, step, J03)
            except _StepTimeout:
                signal.setitimer(signal.ITIMER_REAL, 0)
                if J03:
                    ctx.fail("does-not-return", kind, "step %d (%s) did not return within %d s on a vector of at most a few dozen knots"
                             % (step, kind, STEP_TIME_LIMIT_S))
                ctx.count("step_timeout_unjudged")
                return
            finally:
                signal.setitimer(signal.ITIMER_REAL, 0)
                signal.signal(signal.SIGALRM, old_handler)
                if old_timer[0] > 0:
                    signal.setitimer(signal.ITIMER_REAL, max(1.0, old_timer[0] - (time.time() - t_start)))

    def _post_step(self, ctx, pool, before, outcome, kind, step, J03):
        if True:
            # pool-wide invariants
            for s, kv in enumerate(pool):
                if kv is None:
                    continue
                if self.too_close(kv):
                    # the library deliberately identifies knots closer than 1e-6 (knots, |) / 1e-9 (mult): under C03 (query
                    # agreement) such vectors are outside the explored space and are retired.  Under C18 they stay: the
                    # affine-image clauses are judged on the element list alone, which no tolerance touches
                    if J03:
                        ctx.count("slot_retired_knots_too_close")
                        pool[s] = None
                        continue
                    ctx.probe("affine-map-on-nearly-coincident-knots")
                L = self.check_vector(ctx, kv, J03, "after-" + kind)
                if L is None:
                    ctx.count("slot_retired_illformed")
                    pool[s] = None
                    continue
                if any(isinstance(x, float) for x in list(kv)):
                    ks = M.kv_knots(L)
                    width = float(L[-1] - L[0])
                    if (J03 and min(float(b - a) for a, b in zip(ks, ks[1:])) < 1e-3) or not (2 ** -20 <= width <= 2 ** 10) \
                            or max(abs(float(L[0])), abs(float(L[-1]))) > 2 ** 12:
                        ctx.count("slot_retired_float_discipline")
                        pool[s] = None
                        continue
                else:
                    if max(abs(x.numerator) + x.denominator for x in L) > 10 ** 30:
                        ctx.count("slot_retired_size")
                        pool[s] = None
                        continue
                p = M.wellformed(L)
                ctx.state((p, tuple(m for _, m in M.kv_mults(L)), self.cls_of(kv, "frac")))
            # non-interference: everything that is not the target (or an alias of it) is unchanged
            touched = outcome.get("touched", set())
            for s, kv in enumerate(pool):
                if kv is None or before[s] is None or s in touched:
                    continue
                if any(pool[t] is kv for t in touched if pool[t] is not None):
                    continue
                if outcome.get("replaced") == s:
                    continue
                if J03:
                    ctx.oracle("non-interference")
                    if self.snapshot(kv) != before[s]:
                        ctx.fail("interference", kind, "slot %d changed although step %d (%s) did not operate on it"
                                 % (s, step, kind))
            ctx.log(kind, outcome.get("res", "?"), [None if kv is None else len(kv) for kv in pool])

    @staticmethod
    def too_close(kv, limit=1e-4):
        try:
            L = [M.Fr(x) for x in list(kv)]
        except (TypeError, ValueError):
            return False
        ks = M.kv_knots(L) if all(a <= b for a, b in zip(L, L[1:])) else None
        if not ks or len(ks) < 2:
            return False
        return min(b - a for a, b in zip(ks, ks[1:])) < Fraction(limit)

    # ----- generic "mutating call" wrapper ------------------------------
    def mutate(self, ctx, op, kv, call, must_raise, judge, label, transition=True):
        """Run a mutating call on kv.  must_raise: None | 'ValueError' | 'any'.
        Judged clauses: (iii) invalid request is rejected with the stated exception type,
        (iv) a raising call leaves the object unchanged."""
        pre = self.snapshot(kv)
        try:
            call()
        except Exception as e:  # noqa  (library behaviour is an outcome, not a harness error)
            name = type(e).__name__
            if judge:
                ctx.oracle("refusal-atomic")
                if self.snapshot(kv) != pre:
                    ctx.fail("refusal-not-atomic", label, "%s raised %s but the vector changed" % (label, name))
                if must_raise == "ValueError" and not isinstance(e, ValueError):
                    ctx.fail("wrong-exception", label, "%s must be refused with ValueError, got %s" % (label, name))
            if must_raise is None:
                ctx.count("refused_valid_request:" + label)
            else:
                ctx.fault("invalid-request:" + label)
            return "raise:" + name
        if must_raise is not None:
            ctx.fault("invalid-request:" + label)
            if judge:
                ctx.oracle("rejects-invalid")
                ctx.fail("invalid-accepted", label, "%s was accepted although it must be refused (%s); vector now %s"
                         % (label, must_raise, [M.enc(M.Fr(x)) if not isinstance(x, (str, type(None), list)) else repr(x)
                                                for x in list(kv)][:20]))
        elif transition:
            ctx.transitions += 1
        return "ok"

    def target(self, op):
        t = op.get("t")
        kv = self.pool[t]
        return t, kv

    # ----- operations ----------------------------------------------------
    def op_new(self, op, ctx, cfg, J03, J18):
        lit = op["lit"]
        cls = cfg["cls"]
        if lit["kind"] == "notiter":
            arg = self.decode_item(lit["items"], cls) if lit["items"].startswith("bad:") else int(lit["items"])
            exact = None
        else:
            arg = [self.decode_item(s, cls) for s in lit["items"]]
            try:
                exact = [M.Fr(x) for x in arg]
            except (TypeError, ValueError):
                exact = None
        p = M.wellformed(exact) if exact is not None else None
        valid = p is not None and ("deg" not in lit or lit["deg"] == p)
        try:
            if "deg" in lit:
                kv = self.KnotVector(arg, lit["deg"])
            else:
                kv = self.KnotVector(arg)
        except Exception as e:  # noqa
            if valid:
                ctx.count("refused_valid_request:new")
            else:
                ctx.fault("invalid-request:construct-" + lit["kind"])
                if J03:
                    ctx.oracle("rejects-invalid")
                    if not isinstance(e, ValueError):
                        ctx.fail("wrong-exception", "construct-" + lit["kind"],
                                 "KnotVector(%r) must raise ValueError, raised %s" % (lit["items"], type(e).__name__))
            return {"res": "raise:" + type(e).__name__}
        if not isinstance(kv, self.KnotVector):
            if J03:
                ctx.fail("illformed", "constructor-result", "KnotVector(...) returned %s instead of a KnotVector" % type(kv).__name__)
            return {"res": "not-a-knotvector"}
        if not valid:
            ctx.fault("invalid-request:construct-" + lit["kind"])
            if J03:
                ctx.oracle("rejects-invalid")
                ctx.fail("invalid-accepted", "construct-" + lit["kind"],
                         "KnotVector(%r%s) was accepted" % (lit["items"], ", degree=%r" % lit["deg"] if "deg" in lit else ""))
            return {"res": "accepted-invalid"}
        ctx.transitions += 1
        self.pool[op["dst"]] = kv
        return {"res": "ok", "replaced": op["dst"], "touched": {op["dst"]}}

    def op_gen(self, op, ctx, cfg, J03, J18):
        g, p, n, cls = op["g"], op["p"], op["n"], op["cls"]
        pycls = {"int": int, "float": float, "frac": Fraction}[cls]
        inv = op.get("invalid")
        P, N = p, n
        if inv == "p-neg":
            P = -1 - (p % 3)
        elif inv == "n-le-p":
            N = p - (n % 2)
        elif inv == "p-float":
            P = float(p)
        elif inv == "n-str":
            N = str(n)
        elif inv == "p-none":
            P = None
        if inv == "n-le-p" and g in ("bezier", "weight"):
            inv = None
        if inv == "n-str" and g in ("bezier", "weight"):
            inv = None
        stub = None
        ws = None
        try:
            if g == "bezier":
                kv = self.Gen.bezier(P, pycls)
            elif g == "integer":
                kv = self.Gen.integer(P, N, pycls)
            elif g == "uniform":
                kv = self.Gen.uniform(P, N, pycls)
            elif g == "weight":
                if "wcls" in op:
                    ws = [self.mk(M.dec(w), c) for w, c in zip(op["ws"], op["wcls"])]
                else:
                    ws = [self.mk(M.dec(w), cls) for w in op["ws"]]
                kv = self.Gen.weight(P, ws)
            else:
                r = op["rng"]
                if r["mode"] == "script":
                    stub = ScriptedRandint(r["draws"], self.np)
                    self.np.random.randint = stub
                else:
                    self.np.random.seed(r["seed"])
                try:
                    kv = self.Gen.random(P, N, pycls)
                finally:
                    self.np.random.randint = self._orig_randint
                if stub is not None:
                    ctx.count("rng_scripted_calls", len(stub.calls))
                else:
                    ctx.count("rng_real_seeded_calls")
        except Exception as e:  # noqa
            if inv is None:
                if J18:
                    ctx.oracle("generator-postcondition")
                    ctx.fail("generator-raises", g, "%s(%r, %r, %s) raised %s" % (g, P, N, cls, type(e).__name__))
                ctx.count("refused_valid_request:gen")
            else:
                ctx.fault("invalid-request:gen-" + inv)
            return {"res": "raise:" + type(e).__name__}
        if inv is not None:
            # neither statement says that out-of-domain generator arguments must be refused: if the library answers,
            # the answer only has to be a well-formed vector (checked by the pool-wide invariant under C03)
            ctx.fault("invalid-request:gen-" + inv)
            if not isinstance(kv, self.KnotVector):
                return {"res": "accepted-odd"}
            self.pool[op["dst"]] = kv
            return {"res": "accepted-unspecified", "replaced": op["dst"], "touched": {op["dst"]}}
        if not isinstance(kv, self.KnotVector):
            if J03 or J18:
                ctx.fail("generator-postcondition" if J18 else "illformed", g + "-result-type", "%s(...) returned %s instead of a KnotVector" % (g, type(kv).__name__))
            return {"res": "not-a-knotvector"}
        ctx.transitions += 1
        if J18:
            self.judge_generator(ctx, op, kv, stub, ws)
        self.pool[op["dst"]] = kv
        return {"res": "ok", "replaced": op["dst"], "touched": {op["dst"]}}

    def judge_generator(self, ctx, op, kv, stub, ws):
        g, p, n, cls = op["g"], op["p"], op["n"], op["cls"]
        ctx.oracle("generator-postcondition")
        raw = list(kv)
        try:
            L = [M.Fr(x) for x in raw]
        except (TypeError, ValueError):
            ctx.fail("generator-postcondition", g, "non-numeric knots")
            return
        q = M.wellformed(L)
        if q is None:
            ctx.fail("generator-postcondition", g + "-illformed", "%s(%d,%d,%s) -> %s is not a clamped vector"
                     % (g, p, n, cls, [M.enc(x) for x in L]))
            return
        exp_n = {"bezier": p + 1, "weight": p + len(op.get("ws", []))}.get(g, n)
        if q != p or len(L) - q - 1 != exp_n:
            ctx.fail("generator-postcondition", g + "-shape", "%s(%d,%d): degree=%d npts=%d" % (g, p, n, q, len(L) - q - 1))
        mults = M.kv_mults(L)
        if any(m != 1 for _, m in mults[1:-1]):
            ctx.fail("generator-postcondition", g + "-interior-not-simple", "interior multiplicities %r" % ([m for _, m in mults],))
        ks = [k for k, _ in mults]
        pycls = {"int": int, "float": float, "frac": Fraction}[cls]
        if cls == "frac" and "wcls" not in op and not all(isinstance(x, Fraction) for x in raw):
            ctx.fail("generator-postcondition", g + "-type", "cls=Fraction but knot types %r" % sorted(set(type(x).__name__ for x in raw)))
        # (the statement fixes the knot type only for cls=Fraction; int/float results are judged by value)
        if g in ("bezier", "uniform", "random"):
            if (L[0], L[-1]) != (0, 1):
                if g == "random":
                    ctx.probe("rng-draw-sum-not-roundtrip")
                ctx.fail("generator-postcondition", g + "-interval", "interval is [%s, %s] = [%r, %r], not exactly [0, 1]"
                         % (M.enc(L[0]), M.enc(L[-1]), raw[0], raw[-1]))
        gaps = [b - a for a, b in zip(ks, ks[1:])]
        if g == "integer":
            if ks != [Fraction(i) for i in range(len(ks))]:
                ctx.fail("generator-postcondition", g + "-spacing", "knots %s" % [M.enc(x) for x in ks])
        if g == "uniform":
            m = len(gaps)
            if cls == "frac":
                if any(gp != Fraction(1, m) for gp in gaps):
                    ctx.fail("generator-postcondition", g + "-spacing", "gaps %s" % [M.enc(x) for x in gaps])
            else:
                if any(abs(float(k) - i / m) > 1e-12 for i, k in enumerate(ks)):
                    ctx.fail("generator-postcondition", g + "-spacing", "knots %r" % [float(x) for x in ks])
        if g == "weight":
            exp = [M.Fr(w) for w in ws]
            if cls == "float" or any(isinstance(w, float) for w in ws):
                bad = any(abs(float(a - b)) > 1e-12 * max(1.0, abs(float(b))) for a, b in zip(gaps, exp)) or len(gaps) != len(exp)
            else:
                bad = gaps != exp
            if bad or L[0] != 0:
                ctx.fail("generator-postcondition", g + "-spacing", "gaps %s for weights %s" % ([M.enc(x) for x in gaps], op["ws"]))
        if g == "random":
            if stub is not None:
                ctx.probe("rng-scripted-draw")
                if len(stub.calls) != 1 or stub.calls[0][2] != n - p:
                    ctx.count("rng_unexpected_call_shape")
                # knot spacing must be proportional to the draws the generator received
                draws = []
                low, high, cnt = stub.calls[0] if stub.calls else (1, 1000, n - p)
                for i in range(cnt):
                    d = stub.draws[i % len(stub.draws)]
                    v = low if d == "lo" else (high - 1 if d == "hi" else min(max(low + int(M.dec(d) * (high - low)), low), high - 1))
                    draws.append(v)
                tot = sum(draws)
                if tot > 0 and len(draws) == len(gaps):
                    exp = [Fraction(d, tot) for d in draws]
                    if cls == "frac":
                        if gaps != exp:
                            ctx.fail("generator-postcondition", g + "-spacing", "gaps %s, draws %r" % ([M.enc(x) for x in gaps], draws))
                    elif any(abs(float(a - b)) > 1e-12 for a, b in zip(gaps, exp)):
                        ctx.fail("generator-postcondition", g + "-spacing", "gaps %r, draws %r" % ([float(x) for x in gaps], draws))
                if len(set(stub.draws)) == 1:
                    ctx.probe("rng-all-equal-draws")

    def _nodes(self, op, kv, cfg):
        cls = self.cls_of(kv, cfg["cls"])
        vals, tags = [], []
        for sel in op["nodes"]:
            v, tag = self.resolve(kv, sel, cls)
            if tag == "skip":
                continue
            vals.append(v)
            tags.append(tag)
        return vals, tags

    def op_insert(self, op, ctx, cfg, J03, J18):
        t, kv = self.target(op)
        if kv is None:
            return {"res": "skip"}
        vals, tags = self._nodes(op, kv, cfg)
        if not vals:
            return {"res": "skip"}
        L = self.exact_list(kv)
        must = None
        if "bad" in tags:
            must = "any"
        else:
            ex = [M.Fr(v) for v in vals]
            if any(x < L[0] or x > L[-1] for x in ex):
                must = "ValueError"
                ctx.probe("insert-outside")
            elif M.wellformed(sorted(L + ex)) is None:
                must = "ValueError"
                ctx.probe("insert-excess-multiplicity")
            elif any(x in (L[0], L[-1]) for x in ex):
                ctx.probe("insert-both-ends-raises-degree")
        arg = list(vals)
        if "iterfail" in op:
            arg = FailingIterable(vals, op["iterfail"] % (len(vals) + 1), ctx)
            must = "any"
        if "longiter" in op:
            ks = M.kv_knots(L)
            a, b = ks[0], ks[1]
            count = op["longiter"]
            cls = self.cls_of(kv, cfg["cls"])
            if cls == "float" or (b - a) / (count + 1) < Fraction(1, 10 ** 4) * 2:
                return {"res": "skip"}
            good = [self.mk(a + (b - a) * Fraction(j, count + 1), cls) for j in range(1, count + 1)]

            def stream():
                for x in good:
                    yield x
                ctx.fault("iterator-raises-after-many-nodes")
                raise InjectedFault("node stream failed after %d valid nodes" % count)
            arg = stream()      # a true one-shot iterator (iter(arg) is arg)
            must = "any"
        if op["via"] == "iadd" and "iterfail" not in op and "longiter" not in op:
            def call():
                k = kv
                k += arg
        else:
            def call():
                kv.insert(arg)
        res = self.mutate(ctx, op, kv, call, must, J03, "insert")
        return {"res": res, "touched": {t}}

    def op_remove(self, op, ctx, cfg, J03, J18):
        t, kv = self.target(op)
        if kv is None:
            return {"res": "skip"}
        vals, tags = self._nodes(op, kv, cfg)
        if not vals:
            return {"res": "skip"}
        L = self.exact_list(kv)
        must = None
        if "bad" in tags:
            must = "any"
        else:
            rest = list(L)
            absent = False
            for x in (M.Fr(v) for v in vals):
                if x in rest:
                    rest.remove(x)
                else:
                    absent = True
            if absent:
                must = "ValueError"
                ctx.probe("remove-absent")
            elif M.wellformed(rest) is None:
                must = "ValueError"
                ctx.probe("remove-leaves-illformed")
                if len(set(rest)) <= 1:
                    ctx.probe("remove-to-constant-or-empty")
            elif "end" in tags:
                ctx.probe("remove-both-ends-lowers-degree")
        arg = list(vals)
        if "iterfail" in op:
            arg = FailingIterable(vals, op["iterfail"] % (len(vals) + 1), ctx)
            must = "any"
        if op["via"] == "isub" and "iterfail" not in op:
            def call():
                k = kv
                k -= arg
        else:
            def call():
                kv.remove(arg)
        res = self.mutate(ctx, op, kv, call, must, J03, "remove")
        return {"res": res, "touched": {t}}

    def _scalar(self, op, key, kv, cfg, ctx):
        s = op[key]
        if s.startswith("bad:"):
            return BAD[s[4:]], None, "bad"
        fr = M.dec(s)
        cls = self.cls_of(kv, cfg["cls"])
        if "sim" in op:
            return SimScalar(fr, M.dec(op["sim"]), ctx), fr, "sim"
        return self.mk(fr, cls), fr, "num"

    def op_shift(self, op, ctx, cfg, J03, J18):
        t, kv = self.target(op)
        if kv is None:
            return {"res": "skip"}
        a, fr, tag = self._scalar(op, "a", kv, cfg, ctx)
        if tag != "bad" and abs(fr) > 2 ** 12 and any(isinstance(x, float) for x in list(kv)):
            return {"res": "skip"}     # a huge translation of FLOAT knots merges neighbours by rounding: not a statement about the library
        pre = self.exact_list(kv)
        must = "any" if tag == "bad" else None
        via = op["via"]
        if via == "isub" and tag == "bad":
            via = "method"
        eff = fr if fr is None or via != "isub" else -fr
        if via == "iadd":
            def call():
                k = kv
                k += a
        elif via == "isub":
            def call():
                k = kv
                k -= a
        else:
            def call():
                kv.shift(a)
        basis0 = self._basis_before(kv, J18 and tag == "num")
        res = self.mutate(ctx, op, kv, call, must, J03, "shift")
        if res == "ok" and J18 and tag in ("num", "sim"):
            self.judge_affine(ctx, "shift", pre, kv, Fraction(1), eff, basis0)
        return {"res": res, "touched": {t}}

    def op_scale(self, op, ctx, cfg, J03, J18):
        t, kv = self.target(op)
        if kv is None:
            return {"res": "skip"}
        s, fr, tag = self._scalar(op, "s", kv, cfg, ctx)
        pre = self.exact_list(kv)
        via = op["via"]
        must = None
        if tag == "bad":
            must = "any"
        elif fr <= 0:
            must = "any"
            ctx.probe("scale-nonpositive")
        eff = fr
        if via == "idiv" and tag != "bad" and fr != 0:
            # kv /= s computes 1/s in the argument's own arithmetic: exact for Fractions and powers of two
            if tag == "sim":
                eff = 1 / fr
            else:
                inv = 1 / s
                eff = M.Fr(inv)
        if via == "imul":
            def call():
                k = kv
                k *= s
        elif via == "idiv":
            def call():
                k = kv
                k /= s
        else:
            def call():
                kv.scale(s)
        basis0 = self._basis_before(kv, J18 and tag == "num" and must is None)
        res = self.mutate(ctx, op, kv, call, must, J03, "scale")
        if res == "ok" and J18 and must is None:
            self.judge_affine(ctx, "scale", pre, kv, eff, Fraction(0), basis0)
        return {"res": res, "touched": {t}}

    def op_normalize(self, op, ctx, cfg, J03, J18):
        t, kv = self.target(op)
        if kv is None:
            return {"res": "skip"}
        pre = self.exact_list(kv)
        isf_pre = any(isinstance(x, float) for x in list(kv))
        basis0 = self._basis_before(kv, J18 and not isf_pre and all(isinstance(x, Fraction) for x in list(kv)))
        res = self.mutate(ctx, op, kv, lambda: kv.normalize(), None, J03, "normalize")
        if res == "ok" and J18:
            ctx.oracle("normalize-onto-unit-interval")
            raw = list(kv)
            post = [M.Fr(x) for x in raw]
            if (post[0], post[-1]) != (0, 1):
                ctx.probe("normalize-not-exact")
                ctx.fail("normalize-not-unit-interval", "float" if any(isinstance(x, float) for x in raw) else "exact",
                         "after normalize() the interval is [%r, %r] (pre-state [%s, %s])"
                         % (raw[0], raw[-1], M.enc(pre[0]), M.enc(pre[-1])))
            s = 1 / (pre[-1] - pre[0])
            self.judge_affine(ctx, "normalize", pre, kv, s, -pre[0] * s, basis0,
                              exact=all(isinstance(x, Fraction) for x in raw) and not isf_pre)
        return {"res": res, "touched": {t}}

    def op_normalize_wide(self, op, ctx, cfg, J03, J18):
        p, H = op["p"], int(op["H"])
        m = max(1, min(op["m"], p + 1))
        if op["form"] == "int-right":
            L = [0] * (p + 1) + [H] * m + [H + 1] * (p + 1)
        elif op["form"] == "int-left":
            L = [0] * (p + 1) + [1] * m + [H] * (p + 1)          # control: the small span sits next to 0 and survives
        else:
            L = [-1.0] * (p + 1) + [0.0] * m + [math.nextafter(1.0, 0.0)] * m + [1.0] * (p + 1)
        try:
            kv = self.KnotVector(L)
        except Exception as e:  # noqa
            ctx.count("normalize_wide_not_constructible:" + type(e).__name__)
            return {"res": "skip", "touched": set()}
        pre = self.snapshot(kv)
        ctx.probe("normalize-beyond-float-resolution:" + op["form"])
        try:
            kv.normalize()
        except Exception as e:  # noqa
            ctx.oracle("refusal-atomic")
            if J03 and self.snapshot(kv) != pre:
                ctx.fail("refusal-not-atomic", "normalize-wide", "normalize raised %s but the vector changed" % type(e).__name__)
            return {"res": "raise:" + type(e).__name__, "touched": set()}
        ctx.oracle("wellformed")
        try:
            post = [M.Fr(x) for x in list(kv)]
        except (TypeError, ValueError):
            post = None
        q = None if post is None else M.wellformed(post)
        if J03 and (q is None or len(post) != len(L)):
            ctx.fail("illformed", "after-normalize-wide", "normalize() of %r was accepted and left %r, which is not a clamped knot vector"
                     % (L, list(kv)))
        elif J03 and (kv.degree != q or kv.npts != len(post) - q - 1):
            ctx.fail("query-mismatch", "degree-npts", "after normalize() degree/npts = %r/%r, element list says %d/%d"
                     % (kv.degree, kv.npts, q, len(post) - q - 1))
        return {"res": "ok", "touched": set()}

    def _basis_before(self, kv, enabled):
        """Library basis values before an affine map (for the reparametrisation-invariance by-product)."""
        if not enabled or len(kv) > 24:
            return None
        L = self.exact_list(kv)
        if not all(isinstance(x, Fraction) for x in list(kv)):
            return None     # int knots evaluate through int/int = float division: only all-Fraction vectors are exact
        ks = M.kv_knots(L)
        us = [ks[0], ks[-1], (ks[0] + ks[1]) / 2, (ks[-2] + ks[-1]) * Fraction(1, 3) + ks[-2] * Fraction(1, 3)]
        us = [u for u in us if ks[0] <= u <= ks[-1]]
        try:
            f = self.Function(kv)    # built on the very object that is about to be transformed (Function aliases it)
            vals = [tuple(M.Fr(v) for v in f(u)) for u in us]
        except Exception:  # noqa  (C02 territory; the by-product is simply dropped)
            return None
        return us, vals, f

    def judge_affine(self, ctx, label, pre, kv, s, a, basis0, exact=None):
        """post[i] == s * pre[i] + a; degree, npts and multiplicities preserved."""
        ctx.oracle("affine-image")
        raw = list(kv)
        post = [M.Fr(x) for x in raw]
        if len(post) != len(pre):
            ctx.fail("affine-image", label + "-length", "length changed %d -> %d" % (len(pre), len(post)))
            return
        isf_any = any(isinstance(x, float) for x in raw)
        if isf_any:
            # in floating point two distinct knots may legitimately collapse when their exact images are closer than one ulp
            imgs = [float(s * x + a) for x in M.kv_knots(pre)]
            if len(set(imgs)) != len(imgs):
                ctx.count("affine_float_precision_exhausted_unjudged")
                return
        if M.wellformed(post) is None or M.wellformed(post) != M.wellformed(pre) or \
                [m for _, m in M.kv_mults(post)] != [m for _, m in M.kv_mults(pre)]:
            ctx.fail("affine-image", label + "-multiplicities", "degree/multiplicity pattern changed: %s -> %s"
                     % ([m for _, m in M.kv_mults(pre)], [m for _, m in M.kv_mults(post)]))
            return
        isf = any(isinstance(x, float) for x in raw)
        if exact is None:
            exact = not isf
        for x, y in zip(pre, post):
            want = s * x + a
            if exact:
                if y != want:
                    ctx.fail("affine-image", label + "-exact", "knot %s mapped to %s, expected %s" % (M.enc(x), M.enc(y), M.enc(want)))
                    return
            else:
                if abs(float(y - want)) > 1e-12 * max(1.0, abs(float(want)), abs(float(s * x)), abs(float(a))):
                    ctx.fail("affine-image", label + "-float", "knot %r mapped to %r, expected %r" % (float(x), float(y), float(want)))
                    return
        # the distinct knots reported by the object are the affine image of the distinct knots before
        if self.too_close(kv):
            return
        try:
            got = [M.Fr(x) for x in kv.knots]
        except Exception as e:  # noqa
            got = None
        want_knots = M.kv_knots(post)
        if got != want_knots:
            ctx.fail("affine-image", label + "-knots-query", "after %s .knots = %s but the element list has distinct knots %s"
                     % (label, None if got is None else [M.enc(x) for x in got], [M.enc(x) for x in want_knots]))
            return
        if basis0 is not None and exact and all(isinstance(x, Fraction) for x in raw):
            us, vals, f_old = basis0
            ctx.oracle("reparametrisation-invariance")
            try:
                f = self.Function(kv)
                for u, v0 in zip(us, vals):
                    v1 = tuple(M.Fr(v) for v in f(s * u + a))
                    if v1 != v0:
                        ctx.fail("reparametrisation", label, "basis values changed under the affine map at u=%s" % M.enc(u))
                        return
                if f_old.knotvector is kv:
                    # the Function object that was evaluated before the map holds this very KnotVector: it is now the basis
                    # over s*U+a and has to answer like a freshly built one
                    ctx.probe("reparametrisation-same-function-object")
                    for u, v0 in zip(us, vals):
                        v1 = tuple(M.Fr(v) for v in f_old(s * u + a))
                        if v1 != v0:
                            ctx.fail("reparametrisation", label + "-same-object", "a Function evaluated before %s of its knot vector "
                                     "answers differently afterwards at the mapped node (u=%s)" % (label, M.enc(u)))
                            return
            except core_Violation:
                raise
            except Exception as e:  # noqa
                ctx.fail("reparametrisation", label + "-raises", "evaluating the basis on the transformed vector raised %s: %s" % (type(e).__name__, e))

    def op_convert(self, op, ctx, cfg, J03, J18):
        t, kv = self.target(op)
        if kv is None:
            return {"res": "skip"}
        cls = {"int": int, "frac": Fraction, "float": float, "str": str}[op["cls"]]
        must = "any" if op["cls"] == "str" else None
        pre = self.exact_list(kv)
        res = self.mutate(ctx, op, kv, lambda: kv.convert(cls), must, J03, "convert")
        if res == "ok" and J03 and must is None:
            ctx.oracle("convert-type")
            raw = list(kv)
            if not all(type(x) is cls for x in raw):
                ctx.fail("convert-type", op["cls"], "after convert(%s) knot types are %r" % (op["cls"], sorted(set(type(x).__name__ for x in raw))))
        return {"res": res, "touched": {t}}

    def op_degree(self, op, ctx, cfg, J03, J18):
        t, kv = self.target(op)
        if kv is None:
            return {"res": "skip"}
        L = self.exact_list(kv)
        p = M.wellformed(L)
        must = None
        if "abs" in op:
            a = op["abs"]
            val = BAD[a[4:]] if a.startswith("bad:") else int(a)
            must = "any"
        else:
            val = p + op["delta"]
            d = op["delta"]
            if d < 0:
                rest = list(L)
                ok = True
                for k in M.kv_knots(L):
                    for _ in range(-d):
                        if k in rest:
                            rest.remove(k)
                        else:
                            ok = False
                if not ok or M.wellformed(rest) is None:
                    must = "any"
                    ctx.probe("degree-decrease-impossible")

        def call():
            kv.degree = val
        res = self.mutate(ctx, op, kv, call, must, J03, "degree")
        if res == "ok" and J03 and must is None:
            ctx.oracle("degree-setter")
            if kv.degree != val:
                ctx.fail("degree-setter", "value", "degree is %r after setting %r" % (kv.degree, val))
        return {"res": res, "touched": {t}}

    def _other(self, op, ctx, cfg, kv):
        """The second operand of | and &: a pool member, optionally refined to share the interval."""
        if "otherlit" in op:
            lit = op["otherlit"]
            try:
                return self.KnotVector([self.decode_item(s, cfg["cls"]) for s in lit["items"]]), "foreign"
            except Exception:  # noqa
                return None, None
        o = self.pool[op["o"]]
        if o is None:
            return None, None
        if "refine" in op:
            # a differently refined vector on the same interval as the target
            try:
                other = copy.deepcopy(kv)
                r = op["refine"]
                if r["delta"]:
                    other.degree = other.degree + r["delta"]
                cls = self.cls_of(other, cfg["cls"])
                vals = []
                for sel in r["nodes"]:
                    v, tag = self.resolve(other, sel, cls)
                    if tag in ("mid", "iknot"):
                        vals.append(v)
                for v in vals:
                    try:
                        other.insert([v])
                    except ValueError:
                        pass
                return other, "refined"
            except Exception:  # noqa
                return None, None
        return o, "pool"

    def op_ior(self, op, ctx, cfg, J03, J18, which="ior"):
        t, kv = self.target(op)
        if kv is None:
            return {"res": "skip"}
        other, tag = self._other(op, ctx, cfg, kv)
        if other is None:
            return {"res": "skip"}
        must = None
        if tuple(self.exact_list(kv)[i] for i in (0, -1)) != tuple(self.exact_list(other)[i] for i in (0, -1)):
            ctx.probe("union-different-intervals")   # refusal here is C17's clause; C03 only needs a well-formed result
        osnap = self.snapshot(other)
        if which == "ior":
            def call():
                k = kv
                k |= other
        else:
            def call():
                k = kv
                k &= other
        res = self.mutate(ctx, op, kv, call, must, J03, which)
        if J03 and other is not kv:
            ctx.oracle("operand-unchanged")
            if self.snapshot(other) != osnap:
                ctx.fail("operand-modified", which, "right operand of %s changed" % which)
        return {"res": res, "touched": {t}}

    def op_iand(self, op, ctx, cfg, J03, J18):
        return self.op_ior(op, ctx, cfg, J03, J18, which="iand")

    def op_binop(self, op, ctx, cfg, J03, J18):
        t, kv = self.target(op)
        if kv is None:
            return {"res": "skip"}
        kind = op["kind"]
        pre = self.snapshot(kv)
        other = None
        must = None
        if kind in ("or", "and"):
            other, tag = self._other(op, ctx, cfg, kv)
            if other is None:
                return {"res": "skip"}
            osnap = self.snapshot(other)
            fn = (lambda: kv | other) if kind == "or" else (lambda: kv & other)
        elif kind in ("addl", "subl"):
            vals, tags = self._nodes(op, kv, cfg)
            if not vals:
                return {"res": "skip"}
            L = self.exact_list(kv)
            if "bad" in tags:
                must = "any"
            elif kind == "addl":
                ex = [M.Fr(v) for v in vals]
                if any(x < L[0] or x > L[-1] for x in ex) or M.wellformed(sorted(L + ex)) is None:
                    must = "ValueError"
            else:
                rest = list(L)
                for x in (M.Fr(v) for v in vals):
                    if x in rest:
                        rest.remove(x)
                    else:
                        must = "ValueError"
                if must is None and M.wellformed(rest) is None:
                    must = "ValueError"
            fn = (lambda: kv + list(vals)) if kind == "addl" else (lambda: kv - list(vals))
        else:
            a, fr, tag = self._scalar(op, "a", kv, cfg, ctx)
            if tag == "bad":
                must = "any"
                if kind == "sub":
                    kind = "add"
            elif kind in ("mul", "rmul", "div") and fr <= 0:
                must = "any"
            fn = {"add": lambda: kv + a, "sub": lambda: kv - a, "mul": lambda: kv * a,
                  "rmul": lambda: a * kv, "div": lambda: kv / a}[kind]
        try:
            out = fn()
            res = "ok"
        except Exception as e:  # noqa
            out = None
            res = "raise:" + type(e).__name__
            if must == "ValueError" and not isinstance(e, ValueError) and J03:
                ctx.fail("wrong-exception", "binop-" + kind, "%s must be refused with ValueError, got %s" % (kind, type(e).__name__))
        if must is not None:
            ctx.fault("invalid-request:binop-" + kind)
            if out is not None and J03:
                ctx.oracle("rejects-invalid")
                ctx.fail("invalid-accepted", "binop-" + kind, "binary %s accepted an invalid request" % kind)
        if J03:
            ctx.oracle("operand-unchanged")
            if self.snapshot(kv) != pre:
                ctx.fail("operand-modified", "binop-" + kind, "left operand changed by a binary operator")
            if other is not None and other is not kv and self.snapshot(other) != osnap:
                ctx.fail("operand-modified", "binop-" + kind, "right operand changed by a binary operator")
        if out is not None and must is None:
            if not isinstance(out, self.KnotVector):
                if J03:
                    ctx.fail("illformed", "binop-result-type", "operator returned %s" % type(out).__name__)
                return {"res": res}
            if out is kv:
                if J03:
                    ctx.fail("operand-modified", "binop-returns-self", "binary operator returned the operand itself")
                return {"res": res}
            ctx.transitions += 1
            self.pool[op["dst"]] = out
            return {"res": res, "replaced": op["dst"], "touched": {op["dst"]}}
        return {"res": res}

    def op_split(self, op, ctx, cfg, J03, J18):
        t, kv = self.target(op)
        if kv is None:
            return {"res": "skip"}
        vals, tags = self._nodes(op, kv, cfg)
        if not vals or "bad" in tags:
            return {"res": "skip"}
        L = self.exact_list(kv)
        outside = any(M.Fr(v) < L[0] or M.Fr(v) > L[-1] for v in vals)
        pre = self.snapshot(kv)
        try:
            parts = kv.split(list(vals))
            res = "ok"
        except Exception as e:  # noqa
            parts = None
            res = "raise:" + type(e).__name__
        if outside:
            ctx.fault("invalid-request:split-outside")   # whether split refuses is not C03's subject; pieces must be well formed
        if J03:
            ctx.oracle("operand-unchanged")
            if self.snapshot(kv) != pre:
                ctx.fail("operand-modified", "split", "split changed its operand")
        if parts is not None:
            for part in parts:
                if self.check_vector(ctx, part, J03, "split-piece") is None:
                    return {"res": res}
            ctx.transitions += 1
            pick = parts[op["pick"] % len(parts)]
            if pick is not kv:
                self.pool[op["dst"]] = pick
                return {"res": res, "replaced": op["dst"], "touched": {op["dst"]}}
        return {"res": res}

    def op_copy(self, op, ctx, cfg, J03, J18):
        t, kv = self.target(op)
        if kv is None:
            return {"res": "skip"}
        new = copy.deepcopy(kv) if op["deep"] else copy.copy(kv)
        if J03:
            ctx.oracle("copy-independent")
            if new is kv:
                ctx.fail("copy-not-independent", "identity", "copy returned the same object")
            if self.snapshot(new) != self.snapshot(kv):
                ctx.fail("copy-not-independent", "content", "copy differs from the original")
        self.pool[op["dst"]] = new
        return {"res": "ok", "replaced": op["dst"], "touched": {op["dst"]}}

    def op_alias(self, op, ctx, cfg, J03, J18):
        t, kv = self.target(op)
        if kv is None:
            return {"res": "skip"}
        self.pool[op["dst"]] = self.KnotVector(kv)
        return {"res": "ok", "replaced": op["dst"], "touched": {op["dst"]}}

    def op_query(self, op, ctx, cfg, J03, J18):
        t, kv = self.target(op)
        if kv is None:
            return {"res": "skip"}
        vals, tags = self._nodes(op, kv, cfg)
        if not vals:
            return {"res": "skip"}
        L = self.exact_list(kv)
        bad = "bad" in tags
        outside = (not bad) and any(M.Fr(v) < L[0] or M.Fr(v) > L[-1] for v in vals)
        arg = list(vals) if (op["seq"] or len(vals) > 1) else vals[0]
        if isinstance(arg, list) and not bad:
            form = op.get("form", "list")
            if form == "tuple":
                arg = tuple(arg)
            elif form == "ndarray":
                # a 1-D numpy array of nodes (object dtype keeps exact rationals exact)
                isf_all = all(isinstance(v, float) for v in vals)
                arg = self.np.array(vals, dtype="float64" if isf_all else object)
        what = op["what"]
        pre = self.snapshot(kv)
        try:
            r = getattr(kv, what)(arg)
            res = "ok"
        except Exception as e:  # noqa
            r = e
            res = "raise:" + type(e).__name__
        if J03:
            ctx.oracle("query")
            if self.snapshot(kv) != pre:
                ctx.fail("operand-modified", "query", "a query changed the vector")
            if bad:
                ctx.fault("invalid-request:query-nonnumeric")   # behaviour for non-numeric query nodes is not specified
            elif outside:
                ctx.fault("invalid-request:query-outside")
                if what == "valid":
                    if r is not False:
                        ctx.fail("query-mismatch", "outside-valid", "valid(outside) gave %r" % (r,))
                elif not isinstance(r, ValueError):
                    ctx.fail("query-mismatch", "outside-accepted" if res == "ok" else "outside-wrong-exception",
                             "%s(outside node) gave %r" % (what, r))
            else:
                if isinstance(arg, (list, tuple, self.np.ndarray)):
                    exp = {"span": tuple(M.kv_span(L, M.Fr(v)) for v in vals),
                           "mult": tuple(M.kv_mult(L, M.Fr(v)) for v in vals), "valid": True}[what]
                    got = tuple(r) if (res == "ok" and what != "valid") else r
                else:
                    exp = {"span": M.kv_span(L, M.Fr(arg)), "mult": M.kv_mult(L, M.Fr(arg)), "valid": True}[what]
                    got = r
                if got != exp:
                    ctx.fail("query-mismatch", what, "%s(%s) = %r, element list says %r"
                             % (what, [M.enc(M.Fr(v)) for v in vals], got, exp))
        return {"res": res}

    # ----- shrinking hints ----------------------------------------------
    def simplify(self, plan):
        ops = plan["ops"]
        for i, op in enumerate(ops):
            if "nodes" in op and len(op["nodes"]) > 1:
                for j in range(len(op["nodes"])):
                    new = dict(op, nodes=op["nodes"][:j] + op["nodes"][j + 1:])
                    yield dict(plan, ops=ops[:i] + [new] + ops[i + 1:])
            for key in ("iterfail", "sim", "refine", "deg"):
                if key in op:
                    new = {k: v for k, v in op.items() if k != key}
                    yield dict(plan, ops=ops[:i] + [new] + ops[i + 1:])
        if plan["config"]["cls"] != "frac":
            yield dict(plan, config=dict(plan["config"], cls="frac"))


ENGINE = KVEngine()
