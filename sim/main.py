"""Command line: check <property> --tier quick|thorough | --replay <file> | selftest ..."""
import argparse
import os
import sys
import traceback


def main(argv):
    if argv and argv[0] == "selftest":
        from selftest import runner
        return runner.main(argv[1:])
    ap = argparse.ArgumentParser(prog="check")
    ap.add_argument("property")
    ap.add_argument("--tier", default=os.environ.get("VERIF_TIER", "quick"), choices=["quick", "thorough"])
    ap.add_argument("--replay")
    ap.add_argument("--seed", type=int, default=None)
    ap.add_argument("--json", action="store_true")
    ap.add_argument("rest", nargs="*")
    args = ap.parse_args(argv)
    from sim import core, engines, describe
    if args.property == "selftest":
        from selftest import runner
        return runner.main(args.rest)
    prop = args.property
    if prop not in engines.PROPERTY_ENGINE:
        print("property %s is not claimed by this machinery (see MANIFEST.json not_applicable)" % prop)
        return 2
    eng = engines.PROPERTY_ENGINE[prop]
    if args.replay:
        return core.main_replay(prop, eng, args.replay, args.json)
    seed = args.seed if args.seed is not None else int(os.environ.get("VERIF_SEED", "0") or 0)
    d = describe.DESCRIBE[prop]
    return core.check(prop, eng, args.tier, seed, d["budgets"], d)


if __name__ == "__main__":
    try:
        code = main(sys.argv[1:])
    except SystemExit:
        raise
    except BaseException:
        traceback.print_exc()
        print("HARNESS-ERROR (not a property verdict)")
        code = 2
    sys.stdout.flush()
    sys.exit(code)
