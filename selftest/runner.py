"""Self-tests of the machinery: ./check selftest determinism|model|sensitivity|benign [args]"""
import json
import os
import subprocess
import sys
import time

VERIF = os.path.dirname(os.path.dirname(os.path.abspath(__file__)))


def digests(prop, lo, hi, tier="quick"):
    from sim import core, engines
    eng = engines.get(engines.PROPERTY_ENGINE[prop])
    eng.setup()
    known = core.load_known()
    out = {}
    for i in range(lo, hi):
        seed = core.run_seed(0, prop, i)
        plan = eng.gen_plan(prop, seed, tier)
        r = core.execute(eng, plan, known)
        out[i] = r["digest"] + ("" if r["violation"] is None else "|V:" + r["violation"]["oracle"])
    return out


def determinism(argv):
    """Every run is executed (a) twice in this process, in forward and reverse order, (b) in fresh interpreters
    under two other PYTHONHASHSEED values; all event-log digests must agree."""
    from sim import engines
    props = [a for a in argv if a.startswith("C")] or sorted(engines.PROPERTY_ENGINE)
    n = int(os.environ.get("VERIF_DET_RUNS", "60"))
    bad = 0
    for prop in props:
        t0 = time.time()
        try:
            a = digests(prop, 0, n)
        except ModuleNotFoundError:
            print("determinism %s: engine not built yet, skipped" % prop)
            continue
        # reverse order in the same process: a run must not depend on what the worker ran before it
        from sim import core, engines as E
        eng = E.get(E.PROPERTY_ENGINE[prop])
        known = core.load_known()
        b = {}
        for i in reversed(range(n)):
            plan = eng.gen_plan(prop, core.run_seed(0, prop, i), "quick")
            r = core.execute(eng, plan, known)
            b[i] = r["digest"] + ("" if r["violation"] is None else "|V:" + r["violation"]["oracle"])
        mism = [i for i in range(n) if a[i] != b[i]]
        fresh_mism = []
        for hs in ("1", "random"):
            env = dict(os.environ, PYTHONHASHSEED=hs, PYTHONDONTWRITEBYTECODE="1", PYTHONWARNINGS="ignore")
            code = ("import sys, json; sys.path.insert(0, %r); from selftest.runner import digests; "
                    "print(json.dumps(digests(%r, 0, %d)))" % (VERIF, prop, n))
            p = subprocess.run([sys.executable, "-c", code], capture_output=True, text=True, env=env, cwd=VERIF, timeout=3600)
            if p.returncode != 0:
                print(p.stderr[-2000:])
                raise SystemExit(2)
            c = {int(k): v for k, v in json.loads(p.stdout.strip().splitlines()[-1]).items()}
            fresh_mism += [(hs, i) for i in range(n) if a[i] != c[i]]
        status = "ok" if not mism and not fresh_mism else "MISMATCH"
        print("determinism %s: %d runs x (2 in-process orders + 2 fresh interpreters with other hash seeds): %s  %s %s  (%.1fs)"
              % (prop, n, status, mism[:5], fresh_mism[:5], time.time() - t0), flush=True)
        bad += bool(mism or fresh_mism)
    return 1 if bad else 0


def main(argv):
    if not argv:
        print(__doc__)
        return 2
    cmd, rest = argv[0], argv[1:]
    if cmd == "determinism":
        return determinism(rest)
    if cmd == "model":
        from selftest import model_test
        return model_test.main()
    if cmd == "sensitivity":
        from selftest import sensitivity
        return sensitivity.main(rest)
    if cmd == "seeded":
        from selftest import sensitivity
        return sensitivity.seeded_main(rest)
    print("unknown selftest", cmd)
    return 2
