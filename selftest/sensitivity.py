"""Sensitivity self-test and false-alarm guard.

For every entry of selftest/mutants.py: copy /repo/src to a scratch directory outside /repo and /verif, apply the
replacement, run the named checks against that copy (VERIF_SRC_ROOT) with scratch evidence/replay directories, and
require exit 1 + a VIOLATION line (mutants) or exit 0 (benign variants).  The scratch copy is removed at once.

  ./check selftest sensitivity [--tests] [--only substring] [--benign-only | --mutants-only] [--runs N]
"""
import json
import os
import shutil
import subprocess
import sys
import tempfile
import time

VERIF = os.path.dirname(os.path.dirname(os.path.abspath(__file__)))
REPO = "/repo"


def apply_entry(src_root, entry):
    path = os.path.join(src_root, entry["file"])
    text = open(path).read()
    for old, new in entry.get("edits", [(entry.get("old"), entry.get("new"))]):
        if text.count(old) != 1:
            raise RuntimeError("mutant %s: pattern occurs %d times in %s" % (entry["name"], text.count(old), entry["file"]))
        text = text.replace(old, new)
    open(path, "w").write(text)


def run_suite(scratch):
    """The repository's own tests against the mutated sources (tests are copied next to them)."""
    env = dict(os.environ, PYTHONPATH=os.path.join(scratch, "src"), PYTHONWARNINGS="ignore", PYTHONDONTWRITEBYTECODE="1")
    p = subprocess.run(["/venv/bin/python", "-m", "pytest", "-q", "-p", "no:cacheprovider", "--timeout=900", "tests"],
                       cwd=scratch, env=env, capture_output=True, text=True)
    tail = p.stdout.strip().splitlines()[-1] if p.stdout.strip() else ""
    return tail


def main(argv):
    from selftest import mutants
    with_tests = "--tests" in argv
    only = argv[argv.index("--only") + 1] if "--only" in argv else None
    runs = argv[argv.index("--runs") + 1] if "--runs" in argv else None
    entries = []
    if "--benign-only" not in argv:
        entries += [dict(e, kind="mutant") for e in mutants.MUTANTS]
    if "--mutants-only" not in argv:
        entries += [dict(e, kind="benign") for e in mutants.BENIGN]
    if only:
        entries = [e for e in entries if only in e["name"]]
    base = os.environ.get("TMPDIR") or ("/dev/shm" if os.path.isdir("/dev/shm") else "/tmp")
    results = []
    bad = 0
    for e in entries:
        scratch = tempfile.mkdtemp(prefix="verif-mut-", dir=base)
        t0 = time.time()
        try:
            shutil.copytree(os.path.join(REPO, "src"), os.path.join(scratch, "src"))
            apply_entry(os.path.join(scratch, "src"), e)
            suite = None
            if with_tests:
                shutil.copytree(os.path.join(REPO, "tests"), os.path.join(scratch, "tests"))
                for f in ("pytest.ini", "pyproject.toml"):
                    if os.path.exists(os.path.join(REPO, f)):
                        shutil.copy(os.path.join(REPO, f), scratch)
                suite = run_suite(scratch)
            row = {"name": e["name"], "kind": e["kind"], "suite": suite, "checks": {}}
            for prop in e["props"]:
                env = dict(os.environ, VERIF_SRC_ROOT=os.path.join(scratch, "src"), VERIF_EVIDENCE_DIR=os.path.join(scratch, "ev"),
                           VERIF_REPLAY_DIR=os.path.join(scratch, "rp"))
                if runs or e.get("runs"):
                    env["VERIF_RUNS"] = runs or e["runs"]
                p = subprocess.run([os.path.join(VERIF, "check"), prop, "--tier", e.get("tier", "quick")], env=env, capture_output=True, text=True)
                viol = [l for l in p.stdout.splitlines() if l.startswith("VIOLATION")]
                detail = [l.strip() for l in p.stdout.splitlines() if l.strip().startswith("oracle=")]
                row["checks"][prop] = {"exit": p.returncode, "violations": len(viol), "first": detail[0][:160] if detail else None}
                expect = 1 if e["kind"] == "mutant" else 0
                okay = p.returncode == expect and (bool(viol) == (expect == 1))
                if p.returncode == 2:
                    row["checks"][prop]["stderr"] = (p.stdout + p.stderr)[-600:]
                if not okay:
                    bad += 1
                print("%-7s %-55s %-4s exit=%d %s  %s  (%.0fs)" % (e["kind"], e["name"], prop, p.returncode,
                      "ok" if okay else "UNEXPECTED", (detail[0][:110] if detail else ""), time.time() - t0), flush=True)
            if suite is not None:
                print("        suite: %s" % suite, flush=True)
            results.append(row)
        finally:
            shutil.rmtree(scratch, ignore_errors=True)
    out = os.path.join(VERIF, "selftest", "sensitivity_last.json")
    with open(out, "w") as f:
        json.dump(results, f, indent=1)
    print("sensitivity: %d entries, %d unexpected outcomes; details in %s" % (len(entries), bad, out))
    return 1 if bad else 0


def seeded_main(argv):
    """Every independently written breaking change under /verif/seeded must be reported by the check of the property it
    breaks (quick tier).  ./check selftest seeded [--only id]"""
    only = argv[argv.index("--only") + 1] if "--only" in argv else None
    base = os.environ.get("TMPDIR") or ("/dev/shm" if os.path.isdir("/dev/shm") else "/tmp")
    root = os.path.join(VERIF, "seeded")
    bad = 0
    rows = []
    for name in sorted(os.listdir(root)):
        if only and only not in name:
            continue
        meta = json.load(open(os.path.join(root, name, "meta.json")))
        prop = meta["breaks_property"]
        scratch = tempfile.mkdtemp(prefix="verif-seed-", dir=base)
        t0 = time.time()
        try:
            shutil.copytree(os.path.join(REPO, "src"), os.path.join(scratch, "src"))
            p = subprocess.run(["patch", "-s", "-p1", "-d", scratch, "-i", os.path.join(root, name, "patch.diff")], capture_output=True, text=True)
            if p.returncode != 0:
                print("seed %s: patch does not apply to the current tree: %s" % (name, (p.stdout + p.stderr)[-200:]))
                bad += 1
                continue
            env = dict(os.environ, VERIF_SRC_ROOT=os.path.join(scratch, "src"), VERIF_EVIDENCE_DIR=os.path.join(scratch, "ev"),
                       VERIF_REPLAY_DIR=os.path.join(scratch, "rp"))
            c = subprocess.run([os.path.join(VERIF, "check"), prop, "--tier", "quick"], env=env, capture_output=True, text=True)
            detail = [l.strip() for l in c.stdout.splitlines() if l.strip().startswith("oracle=")]
            okay = c.returncode == 1 and any(l.startswith("VIOLATION") for l in c.stdout.splitlines())
            if meta.get("expected_reported") is False:
                okay = c.returncode == 0     # kept for the record: judged outside the statement, must stay silent
            bad += not okay
            rows.append({"seed": name, "property": prop, "exit": c.returncode, "first": detail[0][:160] if detail else None})
            print("seed %-5s %-4s exit=%d %s  %s  (%.0fs)" % (name, prop, c.returncode, "ok" if okay else "NOT REPORTED",
                                                          detail[0][:110] if detail else "", time.time() - t0), flush=True)
        finally:
            shutil.rmtree(scratch, ignore_errors=True)
    with open(os.path.join(VERIF, "selftest", "seeded_last.json"), "w") as f:
        json.dump(rows, f, indent=1)
    print("seeded: %d changes, %d not reported" % (len(rows), bad))
    return 1 if bad else 0
