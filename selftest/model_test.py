"""Self-test of the reference model (sim/model.py) against facts that do not come from the library:
closed forms, textbook algorithms re-implemented here (Boehm insertion, Bezier elevation), hand-worked
examples.  ./check selftest model"""
import random
from fractions import Fraction as F
from math import comb

from sim import model as M


def boehm_insert(L, P, u):
    """Textbook single knot insertion (Boehm), independent of model.py's evaluation code."""
    p = M.kv_degree(L)
    k = max(i for i in range(len(L) - 1) if L[i] <= u and L[i] < L[i + 1] and (u < L[i + 1] or i == len(L) - p - 2))
    Q = []
    for i in range(len(P) + 1):
        if i <= k - p:
            Q.append(P[i])
        elif i >= k + 1:
            Q.append(P[i - 1])
        else:
            a = (u - L[i]) / (L[i + p] - L[i])
            Q.append(a * P[i] + (1 - a) * P[i - 1])
    return sorted(L + [u]), Q


def bezier_elevate(P):
    p = len(P) - 1
    Q = [P[0]]
    for i in range(1, p + 1):
        Q.append(F(i, p + 1) * P[i - 1] + (1 - F(i, p + 1)) * P[i])
    Q.append(P[-1])
    return Q


def random_state(rng, maxp=4):
    p = rng.randint(0, maxp)
    vals = sorted(set(F(rng.randint(-20, 30), rng.choice([1, 2, 3, 7])) for _ in range(rng.randint(2, 5))))
    while len(vals) < 2:
        vals.append(vals[-1] + 1)
    mults = [p + 1] + [rng.randint(1, p + 1) for _ in vals[1:-1]] + [p + 1]
    L = []
    for v, m in zip(vals, mults):
        L += [v] * m
    n = len(L) - p - 1
    P = [F(rng.randint(-9, 9), rng.choice([1, 2, 3])) for _ in range(n)]
    return L, P


def main():
    rng = random.Random(12345)
    checks = 0

    def ok(cond, what):
        nonlocal checks
        checks += 1
        if not cond:
            raise AssertionError("model self-test failed: " + what)

    # well-formedness table
    wf = M.wellformed
    ok(wf([0, 1]) == 0 and wf([0, 0, 1, 1]) == 1 and wf([0, 0, 0, F(1, 2), 1, 1, 1]) == 2, "valid vectors")
    ok(wf([0, 1, 2, 3]) == 0 and wf([0, 0, 1, 1, 2, 2]) == 1, "valid vectors 2")
    for bad in ([], [1], [1, 1], [0, 0, 0], [0, 0, 1, 1, 2], [0, 0, 1, 2, 2, 3], [-1, 0, 0, 1, 1], [0, 0, 0, 1, 1], [0, 0, 1, 1, 1],
                [0, 0, F(1, 2), F(1, 2), F(1, 2), 1, 1], [0, 0, F(7, 10), F(1, 5), 1, 1], [0, 1, 1], [0, 0, 1]):
        ok(wf(bad) is None, "ill-formed vector accepted: %r" % (bad,))
    L = [F(0), F(0), F(0), F(1), F(2), F(2), F(3), F(3), F(3)]
    ok(M.kv_knots(L) == [0, 1, 2, 3] and M.kv_span(L, F(0)) == 2 and M.kv_span(L, F(1)) == 3 and M.kv_span(L, F(5, 2)) == 5
       and M.kv_span(L, F(3)) == 5 and M.kv_mult(L, F(2)) == 2 and M.kv_mult(L, F(1, 2)) == 0, "span/mult")

    # Bernstein closed form, partition of unity, local support
    for p in range(0, 6):
        Lb = [F(0)] * (p + 1) + [F(1)] * (p + 1)
        for u in (F(0), F(1, 3), F(1, 2), F(7, 8), F(1)):
            row = M.basis_row(Lb, p, u)
            ok(row == [comb(p, i) * u ** i * (1 - u) ** (p - i) for i in range(p + 1)], "Bernstein degree %d at %s" % (p, u))
    for _ in range(200):
        L, P = random_state(rng)
        p = M.kv_degree(L)
        for u in M.sample_params(L, 1):
            row = M.basis_row(L, p, u)
            ok(sum(row) == 1 and all(x >= 0 for x in row), "partition of unity / non-negativity")
            k = M.kv_span(L, u)
            ok(all(row[i] == 0 for i in range(len(row)) if not (k - p <= i <= k)), "local support")
        # symbolic pieces agree with pointwise evaluation
        breaks, comps = M.pieces((L, P, None))
        for s, (a, b) in enumerate(zip(breaks, breaks[1:])):
            for t in (F(0), F(1, 3), F(3, 4)):
                u = a + (b - a) * t
                ok(M.p_eval(comps[s]["num"][0], u) == M.curve_eval((L, P, None), u), "pieces vs evaluation")
        ok(M.curve_eval((L, P, None), L[0]) == P[0] and M.curve_eval((L, P, None), L[-1]) == P[-1], "end-point interpolation")

    # Boehm insertion preserves the function; inserted knots are exactly removable; perturbation is not
    for _ in range(150):
        L, P = random_state(rng, 3)
        ks = M.kv_knots(L)
        j = rng.randrange(len(ks) - 1)
        u = ks[j] + (ks[j + 1] - ks[j]) * F(rng.randint(1, 6), 7)
        L2, P2 = boehm_insert(L, P, u)
        ok(M.same_function((L, P, None), (L2, P2, None)), "Boehm insertion vs same_function")
        ok(M.removable((L2, P2, None), [u]), "an inserted knot must be classified removable")
        ok(M.l2_deviation((L, P, None), (L2, P2, None)) == [0], "zero deviation after insertion")
        if M.kv_degree(L) >= 1:
            P3 = list(P2)
            k = M.kv_span(L2, u)
            P3[k - 1] += 1          # a control point whose support contains u in its interior
            ok(not M.same_function((L, P, None), (L2, P3, None)), "perturbation must change the function")
            ok(not M.removable((L2, P3, None), [u]), "a perturbed knot must not be classified removable")
        # rational: weights w, homogeneous insertion
        W = [F(rng.randint(1, 5), rng.choice([1, 2])) for _ in P]
        _, WP2 = boehm_insert(L, [w * x for w, x in zip(W, P)], u)
        _, W2 = boehm_insert(L, W, u)
        ok(M.same_function((L, P, W), (L2, [a / b for a, b in zip(WP2, W2)], W2)), "rational insertion vs same_function")
        ok(M.curve_eval((L, P, W), u) == M.curve_eval((L2, [a / b for a, b in zip(WP2, W2)], W2), u), "rational evaluation")

    # Bezier elevation: same function, reducible; generic Bezier is not
    for _ in range(100):
        p = rng.randint(0, 4)
        P = [F(rng.randint(-9, 9)) for _ in range(p + 1)]
        L = [F(-1)] * (p + 1) + [F(2)] * (p + 1)
        Q = bezier_elevate(P)
        L2 = [F(-1)] * (p + 2) + [F(2)] * (p + 2)
        ok(M.same_function((L, P, None), (L2, Q, None)), "Bezier elevation vs same_function")
        ok(M.reducible((L2, Q, None), 1), "an elevated Bezier curve must be classified reducible")
        d, mf = M.minimal_form((L2, Q, None))
        ok(d <= p and len(mf) == 2 * (d + 1), "minimal form of an elevated Bezier")
    ok(not M.reducible(([F(0)] * 3 + [F(1)] * 3, [F(0), F(1), F(0)], None), 1), "a parabola is not reducible")

    # hand-worked continuity: |u| (C0 at 0) and u*|u| (C1 at 0)
    s_abs = ([F(-1), F(-1), F(0), F(1), F(1)], [F(1), F(0), F(1)], None)
    d, conts = M.analysis(s_abs)
    ok(d == 1 and conts == [(F(0), 0)], "|u| is C0 at 0")
    s_uabs = ([F(-1)] * 3 + [F(0)] + [F(1)] * 3, [F(-1), F(0), F(0), F(1)], None)
    breaks, comps = M.pieces(s_uabs)
    ok(comps[0]["num"][0] == [0, 0, -1] and comps[1]["num"][0] == [0, 0, 1], "u|u| pieces")
    d, conts = M.analysis(s_uabs)
    ok(d == 2 and conts == [(F(0), 1)], "u|u| is C1 at 0")
    ok(M.minimal_form(s_uabs) == (2, s_uabs[0]), "u|u| is already minimal")
    ok(not M.removable(s_uabs, [F(0)]), "the knot of u|u| is not removable")
    # a straight line written with a superfluous knot and degree: minimal form is the degree-1 Bezier
    line = ([F(0)] * 3 + [F(1, 2)] + [F(1)] * 3, [F(0), F(1, 4), F(3, 4), F(1)], None)
    ok(M.same_function(line, ([F(0), F(0), F(1), F(1)], [F(0), F(1)], None)), "line representation")
    ok(M.minimal_form(line) == (1, [F(0), F(0), F(1), F(1)]), "minimal form of a line")
    ok(M.removable(line, [F(1, 2)]) and M.reducible(line, 1), "line: removable and reducible")

    # L2 deviation
    ok(M.l2_deviation(([F(0), F(0), F(1), F(1)], [F(0), F(1)], None), ([F(0), F(0), F(1), F(1)], [F(0), F(0)], None)) == [F(1, 3)], "integral of u^2")

    # quadrature moments: Simpson, 2-point Gauss
    ok(M.moment_defect([F(0), F(1, 2), F(1)], [F(1, 6), F(2, 3), F(1, 6)], 4) == 0, "Simpson exact to degree 3")
    ok(M.moment_defect([F(0), F(1, 2), F(1)], [F(1, 6), F(2, 3), F(1, 6)], 5) != 0, "Simpson not exact for degree 4")
    g = 0.5 / 3 ** 0.5
    ok(M.moment_defect([0.5 - g, 0.5 + g], [0.5, 0.5], 4) < F(1, 10 ** 15), "2-point Gauss exact to degree 3")
    ok(M.moment_defect([F(0), F(1)], [F(1, 2), F(1, 2)], 3) == F(1, 6), "trapezoid defect on u^2")

    print("model self-test: %d checks passed" % checks)
    return 0
