#!/bin/sh
# usage: verify_seed.sh <worktree> <property> [more properties]   (worktree has the change applied, _seed/ holds patch+demo)
# 1. patch.diff matches the worktree diff and applies to /repo HEAD  2. suite passes with the change
# 3. demo fails with the change, passes on /repo  4. the named checks are run against the changed sources
WT="$1"; shift
echo "== $WT"
git -C "$WT" diff -- src > /tmp/vs_cur.diff
if ! cmp -s /tmp/vs_cur.diff "$WT/_seed/patch.diff"; then echo "NOTE: patch.diff differs from worktree diff (using worktree diff)"; cp /tmp/vs_cur.diff "$WT/_seed/patch.diff"; fi
git -C /repo apply --check "$WT/_seed/patch.diff" && echo "patch applies to /repo HEAD: yes"
echo "suite with change: $(cd "$WT" && PYTHONPATH="$WT/src" PYTHONWARNINGS=ignore PYTHONDONTWRITEBYTECODE=1 /venv/bin/python -m pytest -q -p no:cacheprovider --timeout=900 tests 2>&1 | tail -1)"
(cd "$WT" && PYTHONPATH="$WT/src" PYTHONWARNINGS=ignore PYTHONDONTWRITEBYTECODE=1 timeout 600 /venv/bin/python _seed/demo.py >/tmp/vs_demo1.txt 2>&1); echo "demo with change: exit $? ($(tail -1 /tmp/vs_demo1.txt | cut -c1-120))"
(cd "$WT" && PYTHONPATH=/repo/src PYTHONWARNINGS=ignore PYTHONDONTWRITEBYTECODE=1 timeout 600 /venv/bin/python _seed/demo.py >/tmp/vs_demo0.txt 2>&1); echo "demo on /repo:     exit $?"
for P in "$@"; do
  VERIF_SRC_ROOT="$WT/src" VERIF_EVIDENCE_DIR=/tmp/vs_ev VERIF_REPLAY_DIR=/tmp/vs_rp timeout 1500 /verif/check $P --tier quick > /tmp/vs_check.txt 2>&1
  echo "check $P: exit $?  $(grep -c '^VIOLATION' /tmp/vs_check.txt) violation line(s); $(grep -m1 'oracle=' /tmp/vs_check.txt | cut -c1-200)"
done
