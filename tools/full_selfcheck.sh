#!/bin/sh
# sensitivity (all mutants + benign variants), then a reduced thorough sweep, then multi-seed quick runs
./check selftest model
./check selftest sensitivity
./tools/thorough_sweep.sh "${1:-8}" "${2:-11}"
SEEDS="1 2 3" ./tools/multi_seed_quick.sh
