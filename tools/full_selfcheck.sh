#!/bin/sh
# model test, seeded regression, sensitivity (all mutants + benign variants), reduced thorough sweep, multi-seed quick runs
./check selftest model
./check selftest seeded
./check selftest sensitivity
./tools/thorough_sweep.sh "${1:-8}" "${2:-11}"
SEEDS="1 2 3" ./tools/multi_seed_quick.sh
