#!/bin/sh
# False-alarm guard over seeds: every quick check under several VERIF_SEED values (scratch evidence / replay dirs).
OUT="${TMPDIR:-/tmp}/verif-seeds-$$"; mkdir -p "$OUT"
for SEED in ${SEEDS:-1 2 3 4 5}; do
  for P in C03 C18 C04 C05 C06 C14 C15 C10; do
    VERIF_SEED="$SEED" VERIF_EVIDENCE_DIR="$OUT/ev" VERIF_REPLAY_DIR="$OUT/rp" timeout 1500 ./check "$P" --tier quick > "$OUT/log" 2>&1
    echo "seed=$SEED $P exit=$? $(grep -c '^VIOLATION' "$OUT/log") violations; $(grep '^done' "$OUT/log" | cut -c1-120)"
    grep -A1 '^VIOLATION' "$OUT/log" | cut -c1-250
  done
done
