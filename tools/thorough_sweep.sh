#!/bin/sh
# Reduced thorough sweep over all claimed properties (for use with `vp run`): evidence and replays go to a scratch
# directory so that nothing committed is overwritten.  usage: thorough_sweep.sh [scale-percent] [seed]
SCALE="${1:-10}"; SEED="${2:-7}"
OUT="${TMPDIR:-/tmp}/verif-sweep-$$"; mkdir -p "$OUT"
for spec in C03:1500000 C18:1500000 C04:400000 C05:250000 C06:250000 C14:250000 C15:300000 C10:150000; do
  P="${spec%%:*}"; N="${spec##*:}"; RUNS=$((N * SCALE / 100))
  echo "=== $P thorough, $RUNS runs, seed $SEED"
  VERIF_SEED="$SEED" VERIF_RUNS="$RUNS" VERIF_EVIDENCE_DIR="$OUT/ev" VERIF_REPLAY_DIR="$OUT/rp" timeout 7200 ./check "$P" --tier thorough 2>&1 | grep -E "^(VIOLATION|  oracle=|KNOWN|done|HARNESS|warning)|Error" | cut -c1-260
done
echo "sweep finished; replays (if any) under $OUT/rp"
