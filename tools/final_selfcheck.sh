#!/bin/sh
# last pass before hand-over: seeded regression, multi-seed quick runs (false-alarm guard), reduced thorough sweep
./check selftest model
./check selftest seeded
SEEDS="1 2 3" ./tools/multi_seed_quick.sh
./tools/thorough_sweep.sh "${1:-4}" "${2:-23}"
