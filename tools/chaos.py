#!/venv/bin/python
"""Harness-robustness test: crude random source mutations of compmec/nurbs (operator / constant swaps), each run through a
few checks with small budgets.  A check may exit 0 (mutation not reached or equivalent) or 1 (violation), never 2
(harness error).  usage: chaos.py [n_mutants] [seed]"""
import os, random, re, shutil, subprocess, sys, tempfile
VERIF = os.path.dirname(os.path.dirname(os.path.abspath(__file__)))
FILES = ["compmec/nurbs/heavy.py", "compmec/nurbs/curves.py", "compmec/nurbs/knotspace.py", "compmec/nurbs/calculus.py"]
SWAPS = [(" + 1", " + 2"), (" - 1", " - 2"), (" < ", " <= "), (" <= ", " < "), (" > ", " >= "), (" + ", " - "), (" - ", " + "),
         ("degree + 1", "degree"), ("npts", "npts - 1"), (" == ", " != "), (" is None", " is not None"), ("[0]", "[-1]"),
         ("range(", "range(1, "), (" * ", " + "), ("tuple(", "list("), (" and ", " or "), ("return ", "return None and ")]
PROPS = {"compmec/nurbs/heavy.py": ["C03", "C04", "C05", "C06", "C10", "C14", "C15", "C18"], "compmec/nurbs/curves.py": ["C04", "C05", "C06", "C14", "C15"],
         "compmec/nurbs/knotspace.py": ["C03", "C18", "C15"], "compmec/nurbs/calculus.py": ["C10", "C15"]}
RUNS = {"C03": "800", "C18": "800", "C04": "300", "C05": "300", "C06": "300", "C14": "300", "C15": "400", "C10": "80"}


def main():
    n = int(sys.argv[1]) if len(sys.argv) > 1 else 30
    rng = random.Random(int(sys.argv[2]) if len(sys.argv) > 2 else 1)
    base = "/dev/shm" if os.path.isdir("/dev/shm") else "/tmp"
    bad = 0
    done = 0
    while done < n:
        f = rng.choice(FILES)
        text = open(os.path.join("/repo/src", f)).read().split("\n")
        cand = [i for i, l in enumerate(text) if not l.strip().startswith(("#", '"""', ">>>", "def ", "class ", "import ", "from ")) and l.strip()
                and any(a in l for a, _ in SWAPS)]
        i = rng.choice(cand)
        opts = [(a, b) for a, b in SWAPS if a in text[i]]
        a, b = rng.choice(opts)
        new = text[i].replace(a, b, 1)
        scratch = tempfile.mkdtemp(prefix="verif-chaos-", dir=base)
        try:
            shutil.copytree("/repo/src", os.path.join(scratch, "src"))
            lines = list(text)
            lines[i] = new
            open(os.path.join(scratch, "src", f), "w").write("\n".join(lines))
            c = subprocess.run(["/venv/bin/python", "-W", "ignore", "-c", "import sys; sys.path.insert(0, %r); import compmec.nurbs" % os.path.join(scratch, "src")],
                               capture_output=True, text=True, env=dict(os.environ, PYTHONDONTWRITEBYTECODE="1"))
            if c.returncode != 0:
                continue
            done += 1
            for prop in rng.sample(PROPS[f], 2):
                env = dict(os.environ, VERIF_SRC_ROOT=os.path.join(scratch, "src"), VERIF_EVIDENCE_DIR=os.path.join(scratch, "ev"),
                           VERIF_REPLAY_DIR=os.path.join(scratch, "rp"), VERIF_RUNS=RUNS[prop], VERIF_WORKERS=os.environ.get("VERIF_WORKERS", "8"))
                p = subprocess.run([os.path.join(VERIF, "check"), prop, "--tier", "quick"], env=env, capture_output=True, text=True)
                tag = "ok" if p.returncode in (0, 1) else "HARNESS-ERROR"
                bad += p.returncode not in (0, 1)
                print("%-28s line %4d %-22s -> %-24s %s exit=%d %s" % (f.split("/")[-1], i + 1, a.strip(), b.strip(), prop, p.returncode, tag), flush=True)
                if p.returncode not in (0, 1):
                    print("   " + "\n   ".join((p.stdout + p.stderr).strip().splitlines()[-6:]))
                    print("   mutated line: " + new.strip())
        finally:
            shutil.rmtree(scratch, ignore_errors=True)
    print("chaos: %d mutants, %d harness errors" % (done, bad))
    return 1 if bad else 0


if __name__ == "__main__":
    sys.exit(main())
