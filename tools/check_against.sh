#!/bin/sh
# usage: check_against.sh <source-root-with-src> <prop> [props...]  -> runs quick checks against <root>/src with scratch outputs
WT="$1"; shift
for P in "$@"; do
  VERIF_SRC_ROOT="$WT/src" VERIF_EVIDENCE_DIR=/tmp/ca_ev VERIF_REPLAY_DIR=/tmp/ca_rp timeout 1800 /verif/check $P --tier quick > /tmp/ca_out.txt 2>&1
  echo "$(basename $WT) $P exit=$? $(grep -c '^VIOLATION' /tmp/ca_out.txt) violations  $(grep -m1 'oracle=' /tmp/ca_out.txt | cut -c1-220) $(grep -m1 -E 'HARNESS|HarnessError' /tmp/ca_out.txt | cut -c1-200)"
done
