#!/venv/bin/python
"""Regenerates MANIFEST.json from one table (kept in this file) so that it is always schema-valid."""
import json, os
HERE = os.path.dirname(os.path.abspath(__file__))

NA = {
 "C01": "curve(u) is a pure function of (knots, points, weights, u): nothing is cached, no state/history/fault/schedule can influence it; deciding it is input enumeration (PBT/proof), not simulation (DESIGN §2, §5)",
 "C02": "Function[i,j](u) builds a fresh evaluator per indexing; pure function of (U, w, i, j, u) (DESIGN §5)",
 "C07": "split and | return fresh curves computed from their arguments; no persistent state, refusal clause or shared state; operand non-modification is observed by the C15 check (DESIGN §5)",
 "C08": "operators build fresh curves from operand values; pure; 'operands not modified' is observed by the C15 oracle (DESIGN §5)",
 "C09": "Derivate is a pure constructor of a new curve (DESIGN §5)",
 "C11": "fit_curve overwrites the receiver from (target knot vector, source curve) only; no history, fault or schedule enters the result (DESIGN §5)",
 "C12": "fit_points / fit_function: same as C11, a pure linear-algebra map of the data (DESIGN §5)",
 "C13": "== is a pure predicate on two values (DESIGN §5)",
 "C16": "a sweep over number representations of pure functions; configurations are inputs, there is no schedule or fault (DESIGN §5)",
 "C17": "| and & on knot vectors are pure; operand non-modification is observed by the C03 oracle (DESIGN §5)",
 "C19": "deterministic numeric search; result and termination are functions of (point, curve) alone; no timer, retry or scheduler to simulate (DESIGN §5)",
 "C20": "as C19: deterministic search, a function of the two curves only (DESIGN §5)",
}

# property -> (engine, technique, level text, level note, design ref); filled in as engines are built
CHECKS = {}

def main():
    from checks_table import CHECKS as C  # noqa
    checks = []
    for pid in sorted(C):
        e = C[pid]
        checks.append({
            "property_id": pid,
            "quick_cmd": f"timeout 900 ./check {pid} --tier quick",
            "thorough_cmd": f"timeout 7200 ./check {pid} --tier thorough",
            "evidence_file": f"/verif/evidence/{pid}.json",
            "replay_cmd_template": f"./check {pid} --replay {{path}}",
            "engine": e["engine"],
            "level_claimed": {"category": "exploration", "text": e["text"], "design_ref": e["ref"]},
            "level_note": e["note"],
            "technique": e["technique"],
        })
    na = [{"property_id": k, "reason": v} for k, v in sorted(NA.items())]
    from checks_table import PENDING
    for k, v in sorted(PENDING.items()):
        if k not in C:
            na.append({"property_id": k, "reason": v})
    na.sort(key=lambda d: d["property_id"])
    from checks_table import ENGINES, HOOK_COMMITS, NOTES
    man = {
        "version": 1,
        "setup_cmd": "./setup.sh",
        "hooks": {
            "guard": "COMPMEC_NURBS_VERIF",
            "enable": "no hook is compiled in: every seam (duck-typed points, module attributes, sys.settrace, name-mangled memo tables) is reachable from outside; checks import compmec.nurbs from /repo/src of the working tree",
            "baseline_off_cmd": "cd /repo && /venv/bin/python -m pytest -ra -q -p no:cacheprovider --timeout=900 --continue-on-collection-errors",
            "source_commits": HOOK_COMMITS,
            "add_only": True,
        },
        "engines": ENGINES,
        "checks": checks,
        "notes": NOTES,
        "not_applicable": na,
    }
    with open(os.path.join(HERE, "MANIFEST.json"), "w") as f:
        json.dump(man, f, indent=1)
        f.write("\n")

if __name__ == "__main__":
    import sys
    sys.path.insert(0, HERE)
    main()
