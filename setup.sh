#!/bin/sh
# Nothing to build: verify that the interpreter, numpy and the package under test (from /repo/src) import.
set -e
cd "$(dirname "$0")"
PYTHONDONTWRITEBYTECODE=1 PYTHONPATH=/repo/src /venv/bin/python -c "
import numpy, compmec.nurbs, sys
import compmec.nurbs.heavy as h
assert h.__file__.startswith('/repo/src'), h.__file__
print('setup ok: numpy', numpy.__version__, 'nurbs', compmec.nurbs.__version__)"
